//go:build go1.18

// Package mc is the controlled runtime of the knx-go model checker: a cooperative,
// single-baton scheduler that owns every source of nondeterminism (goroutine order,
// select case, timer order, environment answers) of code rewritten by mcgen.
package mc

import (
	"fmt"
	"os"
	"runtime"
	"runtime/debug"
	"sort"
	"strings"
	"time"
	"unsafe"
)

type Duration = time.Duration

// Kind classifies a harness choice.
type Kind uint8

const (
	Free  Kind = iota // alternative costs nothing
	Fault             // any alternative other than 0 costs one fault
)

// point kinds recorded in the choice vector
const (
	pkSched  uint8 = iota // which enabled goroutine/timer runs next
	pkSelect              // which ready select case
	pkFree                // harness Choose(Free)
	pkFault               // harness Choose(Fault)
)

// Point is one recorded choice.
type Point struct {
	N       int   // number of alternatives
	Chosen  int   // alternative taken
	Kind    uint8 // pk*
	Preempt bool  // pkSched: the running goroutine was still enabled (alt>0 is a preemption)
}

type opKind uint8

const (
	opResume opKind = iota
	opSend
	opRecv
	opSelect
	opClose
	opLock
	opUnlock
	opRLock
	opRUnlock
	opOnce
	opOnceDone
	opWgAdd
	opWgWait
	opSleep
	opYield
)

var opNames = [...]string{"resume", "send", "recv", "select", "close", "lock", "unlock", "rlock", "runlock", "once", "oncedone", "wgadd", "wgwait", "sleep", "yield"}

type selCase struct {
	ch   *chanCore
	send bool
	val  any
}

type op struct {
	kind      opKind
	seq       int      // publication order
	at        Duration // virtual instant of publication
	ch        *chanCore
	val       any // value to send
	mu        *Mutex
	rw        *RWMutex
	once      *Once
	wg        *WaitGroup
	delta     int
	cases     []selCase
	hasDef    bool
	completed bool // effect already applied (by a partner or hand-off); goroutine only has to resume
	// results
	rval     any
	rok      bool
	rcase    int
	rrun     bool   // Once: caller must run f
	panicMsg string // raise in goroutine after resume
	site     string
}

// G is a controlled goroutine.
type G struct {
	ID     int
	Site   string
	Env    bool // harness/environment goroutine (not part of the library census)
	wake   chan struct{}
	exitCh chan struct{}
	pend   *op
	done   bool
	hash   uint64
	vc     []uint32
	nspawn int
}

// Event is one oracle-relevant log entry.
type Event struct {
	T    Duration
	G    int
	Site string
	V    any
}

func (e Event) String() string {
	return fmt.Sprintf("%6.1fms g%d %v", float64(e.T)/float64(time.Millisecond), e.G, e.V)
}

// Built-in event payloads.
type PanicEscaped struct {
	Site  string
	Value string
	Stack string
}

func (p PanicEscaped) String() string { return "PANIC-ESCAPED " + p.Site + ": " + p.Value }

type Fatal struct{ Msg string }

func (f Fatal) String() string { return "FATAL " + f.Msg }

type Race struct {
	Loc          string
	A, B         string // sites
	AWrite       bool
	BWrite       bool
	AGoroutine   string
	BGoroutine   string
	AddrForDedup uintptr
}

func (r Race) String() string {
	k := func(w bool) string {
		if w {
			return "write"
		}
		return "read"
	}
	return fmt.Sprintf("RACE %s at %s [%s] vs %s at %s [%s]", k(r.AWrite), r.A, r.AGoroutine, k(r.BWrite), r.B, r.BGoroutine)
}

// GInfo describes a live goroutine (census).
type GInfo struct {
	ID      int
	Site    string
	Env     bool
	Pending string
}

type timerKind uint8

const (
	tkChan timerKind = iota
	tkFunc
	tkWake
)

// Timer is a virtual timer.
type Timer struct {
	id     int
	when   Duration
	period Duration
	kind   timerKind
	ch     *Chan[time.Time]
	f      func()
	g      *G
	active bool
	listed bool
	hash   uint64
	vc     []uint32
	site   string
}

// Sched is the state of one execution.
type Sched struct {
	gs          []*G
	cur         *G
	now         Duration
	timers      []*Timer
	nTimer      int
	nChan       int
	nObj        int
	pubSeq      int
	prefix      []int
	points      []Point
	log         []Event
	steps       int
	cfg         *Config
	ending      bool
	abort       bool
	reason      string // "", "main-returned", "deadlock", "horizon", "step-limit", "fatal"
	endCh       chan struct{}
	main        *G
	fps         map[uint64]struct{}
	races       map[string]bool
	shadow      map[unsafe.Pointer]*shadowLoc
	diverge     string
	spins       int
	lastAdvance int
	spinFair    bool
	quiet       bool
}

// S is the scheduler of the execution in progress (one per process).
var S *Sched

// Config bounds one exploration.
type Config struct {
	MaxSteps   int      // visible operations per execution (safety net)
	Horizon    Duration // virtual-time horizon
	Watchdog   time.Duration
	TrackFP    bool
	NoRace     bool
	TraceSteps bool // record a step trace into the log (replay mode)
	SpinLimit  int  // visible operations at one virtual instant after which the spin rule advances the clock
	StmtPoints bool // statement-level scheduling points in the codec packages (StmtPoint) are active
}

func (c *Config) defaults() {
	if c.MaxSteps == 0 {
		c.MaxSteps = 200000
	}
	if c.SpinLimit == 0 {
		c.SpinLimit = 50000
	}
	if c.Horizon == 0 {
		c.Horizon = 3600 * time.Second
	}
	if c.Watchdog == 0 {
		c.Watchdog = 30 * time.Second
	}
}

// Trace is the result of one execution.
type Trace struct {
	Points    []Point
	Log       []Event
	Reason    string
	Steps     int
	End       Duration
	Live      []GInfo // goroutines alive at the end
	Diverged  string
	MainEnded bool
	FPs       map[uint64]struct{}
}

func mix(h uint64, vs ...uint64) uint64 {
	for _, v := range vs {
		h ^= v + 0x9e3779b97f4a7c15 + (h << 6) + (h >> 2)
		h *= 0xff51afd7ed558ccd
		h ^= h >> 33
	}
	return h
}

func strHash(s string) uint64 {
	var h uint64 = 14695981039346656037
	for i := 0; i < len(s); i++ {
		h ^= uint64(s[i])
		h *= 1099511628211
	}
	return h
}

// Run executes scenario once under the choice prefix (choice 0 afterwards).
// PreRun, when set, is called at the start of every execution (the harness restores the library's
// package-level variables there).
var PreRun func()

func Run(cfg *Config, prefix []int, scenario func()) *Trace {
	if PreRun != nil {
		PreRun()
	}
	cfg.defaults()
	s := &Sched{prefix: prefix, cfg: cfg, endCh: make(chan struct{}, 1)}
	if cfg.TrackFP {
		s.fps = map[uint64]struct{}{}
	}
	if !cfg.NoRace {
		s.shadow = map[unsafe.Pointer]*shadowLoc{}
		s.races = map[string]bool{}
	}
	S = s
	main := s.newG("main", true, nil)
	s.main = main
	s.start(main, scenario)
	s.cur = main
	main.pend = nil
	main.wake <- struct{}{}
	select {
	case <-s.endCh:
	case <-time.After(cfg.Watchdog):
		// a goroutine is stuck in code that never yields: unrecoverable in-process
		fmt.Printf("\nMC-HANG prefix=%v steps=%d in=%s\n", s.choicesSoFar(), s.steps, hungFrame())
		os.Stdout.Sync()
		os.Exit(3)
	}
	tr := &Trace{Points: s.points, Log: s.log, Reason: s.reason, Steps: s.steps, End: s.now, Diverged: s.diverge, MainEnded: main.done, FPs: s.fps}
	for _, g := range s.gs {
		if !g.done {
			tr.Live = append(tr.Live, GInfo{g.ID, g.Site, g.Env, g.pendString()})
		}
	}
	// abort phase: unwind every parked goroutine
	s.abort = true
	for i := 0; i < len(s.gs); i++ {
		g := s.gs[i]
		select {
		case <-g.exitCh:
			continue
		default:
		}
		g.wake <- struct{}{}
		<-g.exitCh
	}
	S = nil
	return tr
}

// hungFrame names the innermost function of the library under test that a running goroutine is
// executing (the code that loops without reaching a visible operation).
func hungFrame() string {
	buf := make([]byte, 1<<20)
	buf = buf[:runtime.Stack(buf, true)]
	const mod = "github.com/vapourismo/knx-go/"
	for _, g := range strings.Split(string(buf), "\n\n") {
		if !strings.Contains(g, "[running]") && !strings.Contains(g, "[runnable]") {
			continue
		}
		// the outermost library frame (the goroutine's entry function) is stable across samples;
		// the innermost one depends on where in the loop the sample was taken
		found := ""
		for _, line := range strings.Split(g, "\n") {
			if strings.HasPrefix(line, mod) && !strings.HasPrefix(line, mod+"verifmc/") {
				fn := line[len(mod):]
				if i := strings.LastIndex(fn, "("); i > 0 {
					fn = fn[:i]
				}
				found = strings.ReplaceAll(fn, " ", "")
			}
		}
		if found != "" {
			return found
		}
	}
	return "unknown"
}

func (s *Sched) choicesSoFar() []int {
	r := make([]int, len(s.points))
	for i, p := range s.points {
		r[i] = p.Chosen
	}
	return r
}

func (g *G) pendString() string {
	o := g.pend
	if o == nil {
		return "running"
	}
	str := opNames[o.kind]
	if o.completed {
		str += "(completed)"
	}
	if o.ch != nil {
		str += " " + o.ch.name
	}
	if o.kind == opSelect {
		var cs []string
		for _, c := range o.cases {
			n := "nil"
			if c.ch != nil {
				n = c.ch.name
			}
			if c.send {
				cs = append(cs, "send:"+n)
			} else {
				cs = append(cs, "recv:"+n)
			}
		}
		str += " [" + strings.Join(cs, ",") + "]"
	}
	if o.mu != nil {
		str += " " + o.mu.name()
	}
	if o.site != "" {
		str += " @" + o.site
	}
	return str
}

func (s *Sched) newG(site string, env bool, parent *G) *G {
	g := &G{ID: len(s.gs), Site: site, Env: env, wake: make(chan struct{}, 1), exitCh: make(chan struct{})}
	if parent != nil {
		parent.nspawn++
		g.hash = mix(parent.hash, 0x5a, uint64(parent.nspawn), strHash(site))
		parent.hash = mix(parent.hash, 0x5b)
		g.vc = append([]uint32(nil), parent.vc...)
		parent.tick()
	} else {
		g.hash = strHash(site)
	}
	for len(g.vc) <= g.ID {
		g.vc = append(g.vc, 0)
	}
	g.vc[g.ID] = 1
	g.pend = &op{kind: opResume}
	s.gs = append(s.gs, g)
	return g
}

func (g *G) tick() {
	for len(g.vc) <= g.ID {
		g.vc = append(g.vc, 0)
	}
	g.vc[g.ID]++
}

func joinVC(dst *[]uint32, src []uint32) {
	d := *dst
	for len(d) < len(src) {
		d = append(d, 0)
	}
	for i, v := range src {
		if v > d[i] {
			d[i] = v
		}
	}
	*dst = d
}

func (s *Sched) start(g *G, f func()) {
	go func() {
		defer close(g.exitCh)
		defer func() {
			r := recover()
			if s.abort {
				return
			}
			if r != nil {
				s.logAt(g, PanicEscaped{Site: g.Site, Value: fmt.Sprint(r), Stack: string(debug.Stack())})
				s.reason = "fatal"
				g.done = true
				s.signalEnd()
				return
			}
			g.done = true
			g.pend = nil
			if g == s.main {
				s.reason = "main-returned"
				s.signalEnd()
				return
			}
			next := s.pick()
			if next == nil {
				s.signalEnd()
				return
			}
			s.cur = next
			next.wake <- struct{}{}
		}()
		g.park()
		f()
	}()
}

func (g *G) park() {
	<-g.wake
	if S == nil || S.abort {
		runtime.Goexit()
	}
}

func (s *Sched) signalEnd() {
	if !s.ending {
		s.ending = true
		s.endCh <- struct{}{}
	}
}

// inert reports whether visible operations must do nothing (abort phase or no scheduler).
func inert() bool {
	return S == nil || S.abort
}

// yield publishes o as the pending operation of the running goroutine and blocks until the
// scheduler has chosen this goroutine and applied the operation.
func (s *Sched) yield(o *op) {
	g := s.cur
	o.seq = s.pubSeq
	o.at = s.now
	s.pubSeq++
	g.pend = o
	s.steps++
	next := s.pick()
	if next == nil {
		s.signalEnd()
		g.park() // only ever woken for abort
		return
	}
	if next != g {
		s.cur = next
		next.wake <- struct{}{}
		g.park()
	} else {
		s.cur = g
	}
	g.pend = nil
	if s.cfg.TraceSteps {
		s.log = append(s.log, Event{s.now, g.ID, g.Site, stepTrace{opNames[o.kind], o.describe()}})
	}
}

type stepTrace struct{ Op, Obj string }

func (t stepTrace) String() string { return "  . " + t.Op + " " + t.Obj }

func (o *op) describe() string {
	switch {
	case o.ch != nil:
		return o.ch.name
	case o.mu != nil:
		return o.mu.name()
	case o.kind == opSelect:
		return fmt.Sprintf("case %d", o.rcase)
	}
	return ""
}

type cand struct {
	g *G
	t *Timer
}

func (s *Sched) enabledList() []cand {
	var en []cand
	if s.cur != nil && !s.cur.done && s.cur.pend != nil && s.opEnabled(s.cur, s.cur.pend) {
		en = append(en, cand{g: s.cur})
	}
	for _, g := range s.gs {
		if g == s.cur || g.done || g.pend == nil {
			continue
		}
		if s.opEnabled(g, g.pend) {
			en = append(en, cand{g: g})
		}
	}
	var due []*Timer
	for _, t := range s.timers {
		if t.active && t.when <= s.now {
			due = append(due, t)
		}
	}
	if len(due) > 1 {
		sort.SliceStable(due, func(i, j int) bool {
			if due[i].when != due[j].when {
				return due[i].when < due[j].when
			}
			return due[i].id < due[j].id
		})
	}
	for _, t := range due {
		en = append(en, cand{t: t})
	}
	return en
}

func (s *Sched) pick() *G {
	for {
		if s.reason == "fatal" {
			return nil
		}
		if s.steps > s.cfg.MaxSteps {
			s.reason = "step-limit"
			return nil
		}
		en := s.enabledList()
		if len(en) == 0 {
			if !s.advance() {
				return nil
			}
			s.lastAdvance = s.steps
			continue
		}
		if s.steps-s.lastAdvance > s.cfg.SpinLimit {
			// Spin rule: some goroutine keeps performing visible operations without ever blocking
			// (e.g. receiving from a closed channel in a loop), so the clock would never advance.
			// Real time does pass while it spins: jump to the earliest deadline and fire what is due.
			s.lastAdvance = s.steps
			if !s.spinAdvance() {
				s.reason = "livelock"
				return nil
			}
			continue
		}
		idx := 0
		if len(en) > 1 {
			running := s.cur != nil && en[0].g == s.cur && en[0].g != nil
			idx = s.choice(len(en), pkSched, running)
			if idx < 0 {
				return nil
			}
		}
		c := en[idx]
		if c.t != nil {
			s.fire(c.t)
			s.cur = nil
			continue
		}
		if !s.apply(c.g) {
			return nil
		}
		if s.fps != nil {
			s.fps[s.fingerprint(c.g)] = struct{}{}
		}
		return c.g
	}
}

// choice records (or replays) one choice point.
func (s *Sched) choice(n int, kind uint8, preempt bool) int {
	if s.quiet {
		return 0
	}
	i := len(s.points)
	c := 0
	if i < len(s.prefix) {
		c = s.prefix[i]
		if c >= n || c < 0 {
			s.diverge = fmt.Sprintf("choice %d: prefix wants alternative %d of %d", i, c, n)
			s.reason = "fatal"
			return -1
		}
	}
	s.points = append(s.points, Point{N: n, Chosen: c, Kind: kind, Preempt: preempt})
	return c
}

// BusySpin is logged when the spin rule had to advance the clock.
type BusySpin struct{ Site string }

func (b BusySpin) String() string { return "BUSY-SPIN " + b.Site }

// spinAdvance jumps to the earliest deadline and fires every timer due then, in deadline order.
func (s *Sched) spinAdvance() bool {
	var min Duration = -1
	for _, t := range s.timers {
		if t.active && (min < 0 || t.when < min) {
			min = t.when
		}
	}
	if min < 0 || min > s.cfg.Horizon {
		return false
	}
	site := "?"
	if s.cur != nil {
		site = s.cur.Site
	}
	s.log = append(s.log, Event{s.now, -1, site, BusySpin{site}})
	s.spinFair = true
	if min > s.now {
		s.now = min
	}
	for {
		var next *Timer
		for _, t := range s.timers {
			if t.active && t.when <= s.now && (next == nil || t.when < next.when || (t.when == next.when && t.id < next.id)) {
				next = t
			}
		}
		if next == nil {
			break
		}
		s.fire(next)
		if next.period > 0 && next.when <= s.now {
			continue
		}
	}
	return true
}

// advance moves virtual time to the earliest timer deadline. False: nothing can ever happen.
func (s *Sched) advance() bool {
	var min Duration = -1
	for _, t := range s.timers {
		if t.active && (min < 0 || t.when < min) {
			min = t.when
		}
	}
	if min < 0 {
		s.reason = "deadlock"
		return false
	}
	if min > s.cfg.Horizon {
		s.reason = "horizon"
		return false
	}
	if min > s.now {
		s.now = min
	}
	// compact the timer list now and then
	if len(s.timers) > 64 {
		k := 0
		for _, t := range s.timers {
			if t.active {
				s.timers[k] = t
				k++
			} else {
				t.listed = false
			}
		}
		s.timers = s.timers[:k]
	}
	return true
}

func (s *Sched) fire(t *Timer) {
	s.steps++
	fh := mix(t.hash, 0x77, uint64(s.now))
	switch t.kind {
	case tkChan:
		c := &t.ch.chanCore
		if len(c.buf) < c.cap {
			c.buf = append(c.buf, bufElem{v: time.Time{}.Add(s.now), hash: fh, vc: t.vc})
			s.wakeBufferedReceiver(c)
		}
		if t.period > 0 {
			t.when += t.period
		} else {
			t.active = false
		}
	case tkFunc:
		t.active = false
		g := s.newG("timerfunc:"+t.site, false, nil)
		g.hash = fh
		g.vc = append([]uint32(nil), t.vc...)
		for len(g.vc) <= g.ID {
			g.vc = append(g.vc, 0)
		}
		g.vc[g.ID] = 1
		s.start(g, t.f)
	case tkWake:
		t.active = false
		if t.g.pend != nil && t.g.pend.kind == opSleep {
			t.g.pend.completed = true
			t.g.hash = mix(t.g.hash, 0x78, uint64(s.now))
		}
	}
}

// wakeBufferedReceiver completes the earliest pending plain receive on c if the buffer has data.
// (Pending receivers are otherwise discovered lazily through opEnabled; nothing to do here.)
func (s *Sched) wakeBufferedReceiver(c *chanCore) {}

func (s *Sched) opEnabled(g *G, o *op) bool {
	if o.completed {
		return true
	}
	switch o.kind {
	case opResume, opClose, opUnlock, opRUnlock, opWgAdd, opYield, opOnceDone:
		return true
	case opSend:
		return s.sendReady(g, o.ch)
	case opRecv:
		return s.recvReady(g, o.ch)
	case opSelect:
		if o.hasDef {
			return true
		}
		for _, c := range o.cases {
			if c.send && s.sendReady(g, c.ch) || !c.send && s.recvReady(g, c.ch) {
				return true
			}
		}
		return false
	case opLock:
		if o.rw != nil {
			return !o.rw.w && o.rw.r == 0
		}
		return !o.mu.locked
	case opOnce:
		return !o.once.started || o.once.done
	case opWgWait:
		return o.wg.n == 0
	case opSleep:
		return false
	case opRLock:
		return !o.rw.w && !s.writerWaiting(o.rw)
	}
	return false
}

func (s *Sched) writerWaiting(rw *RWMutex) bool {
	for _, g := range s.gs {
		if !g.done && g.pend != nil && !g.pend.completed && g.pend.kind == opLock && g.pend.rw == rw {
			return true
		}
	}
	return false
}

func (s *Sched) sendReady(g *G, c *chanCore) bool {
	if c == nil {
		return false
	}
	if c.closed || len(c.buf) < c.cap {
		return true
	}
	// FIFO wait queues (as in the Go runtime): of several goroutines blocked sending on c, only the
	// one that has been waiting longest can complete with a receiver
	return s.findPartner(g, c, false) != nil && !s.earlierWaiter(g, c, true)
}

func (s *Sched) recvReady(g *G, c *chanCore) bool {
	if c == nil {
		return false
	}
	if len(c.buf) > 0 || c.closed {
		return true
	}
	return s.findPartner(g, c, true) != nil && !s.earlierWaiter(g, c, false)
}

// earlierWaiter reports whether another goroutine published a pending operation of the same
// direction on c before g published its own.
func (s *Sched) earlierWaiter(g *G, c *chanCore, send bool) bool {
	if g.pend == nil {
		return false
	}
	for _, p := range s.gs {
		if p == g || p.done || p.pend == nil || p.pend.completed || p.pend.seq >= g.pend.seq {
			continue
		}
		o := p.pend
		switch o.kind {
		case opSend:
			if send && o.ch == c {
				return true
			}
		case opRecv:
			if !send && o.ch == c {
				return true
			}
		case opSelect:
			for _, sc := range o.cases {
				if sc.ch == c && sc.send == send {
					return true
				}
			}
		}
	}
	return false
}

// findPartner returns the earliest-published goroutine other than g with a pending, not yet
// completed operation on c of the wanted direction (wantSend: a sender).
func (s *Sched) findPartner(g *G, c *chanCore, wantSend bool) *G {
	var best *G
	for _, p := range s.gs {
		if p == g || p.done || p.pend == nil || p.pend.completed {
			continue
		}
		o := p.pend
		ok := false
		switch o.kind {
		case opSend:
			ok = wantSend && o.ch == c
		case opRecv:
			ok = !wantSend && o.ch == c
		case opSelect:
			for _, sc := range o.cases {
				if sc.ch == c && sc.send == wantSend {
					ok = true
					break
				}
			}
		}
		if ok && (best == nil || o.seq < best.pend.seq) {
			best = p
		}
	}
	return best
}

// completePartner finishes p's pending operation as the counterpart of a transfer on c.
func (s *Sched) completePartner(p *G, c *chanCore, asSender bool, v any, ok bool, fromHash uint64, fromVC []uint32) (val any) {
	o := p.pend
	o.completed = true
	idx := 0
	if o.kind == opSelect {
		for i, sc := range o.cases {
			if sc.ch == c && sc.send == asSender {
				idx = i
				if asSender {
					val = sc.val
				}
				break
			}
		}
		o.rcase = idx
	} else if asSender {
		val = o.val
	}
	if !asSender {
		o.rval, o.rok = v, ok
	}
	p.hash = mix(p.hash, 0x10, uint64(c.id), uint64(idx), fromHash)
	joinVC(&p.vc, fromVC)
	p.tick()
	return val
}

// apply performs g's pending operation. False: the execution must end (fatal).
func (s *Sched) apply(g *G) bool {
	o := g.pend
	if o.completed {
		return true
	}
	switch o.kind {
	case opResume, opYield:
	case opSend:
		s.doSend(g, o, o.ch, o.val)
	case opRecv:
		s.doRecv(g, o, o.ch)
	case opSelect:
		var ready []int
		for i, c := range o.cases {
			if c.send && s.sendReady(g, c.ch) || !c.send && s.recvReady(g, c.ch) {
				ready = append(ready, i)
			}
		}
		if o.hasDef && len(ready) > 0 {
			// A goroutine is parked AT its next visible operation, so a sender / receiver counts as
			// waiting on the channel from the moment its previous operation completed. A non-blocking
			// poll (select with default) can tell the difference: in a real execution the partner may
			// still be on its way to the channel operation when the poll happens. For every ready case
			// that is ready only through a partner that published its operation at this very instant
			// (library code takes no virtual time, A1), the schedule "the poll comes first" is a
			// second outcome; it costs one preemption (the partner was held up before arriving).
			var firm []int
			fresh := false
			for _, i := range ready {
				c := o.cases[i]
				viaPartner := c.ch != nil && !c.ch.closed && (c.send && len(c.ch.buf) >= c.ch.cap || !c.send && len(c.ch.buf) == 0)
				if viaPartner {
					if p := s.findPartner(g, c.ch, !c.send); p != nil && p.pend != nil && p.pend.at == s.now {
						fresh = true
						continue
					}
				}
				firm = append(firm, i)
			}
			if fresh {
				alt := s.choice(2, pkSched, true)
				if alt < 0 {
					return false
				}
				if alt == 1 {
					ready = firm
					g.hash = mix(g.hash, 0x2F)
				}
			}
		}
		if len(ready) == 0 {
			o.rcase = -1
			g.hash = mix(g.hash, 0x20)
			break
		}
		k := 0
		if len(ready) > 1 && s.spinFair {
			// Fairness after a busy spin: Go's select chooses uniformly among ready cases, so a
			// spinning loop eventually takes the case a timer just made ready. On the default path
			// the cases are offered in reverse order once, which lets the loop leave.
			// (No alternative is offered here: continuing to spin past a ready timer case for a whole
			// further clock jump is an unfair schedule that real time excludes.)
			s.spinFair = false
			ready = ready[len(ready)-1:]
		}
		if len(ready) > 1 {
			k = s.choice(len(ready), pkSelect, false)
			if k < 0 {
				return false
			}
		}
		i := ready[k]
		o.rcase = i
		g.hash = mix(g.hash, 0x21, uint64(i))
		if o.cases[i].send {
			s.doSend(g, o, o.cases[i].ch, o.cases[i].val)
		} else {
			s.doRecv(g, o, o.cases[i].ch)
		}
	case opClose:
		c := o.ch
		if c == nil {
			o.panicMsg = "close of nil channel"
			break
		}
		if c.closed {
			o.panicMsg = "close of closed channel"
			break
		}
		c.closed = true
		c.closeHash = g.hash
		c.closeVC = append([]uint32(nil), g.vc...)
		g.hash = mix(g.hash, 0x30, uint64(c.id))
		g.tick()
		// wake every pending receiver and sender on c
		for _, p := range s.gs {
			if p == g || p.done || p.pend == nil || p.pend.completed {
				continue
			}
			po := p.pend
			switch po.kind {
			case opRecv:
				if po.ch == c && len(c.buf) == 0 {
					po.completed = true
					po.rval, po.rok = nil, false
					p.hash = mix(p.hash, 0x31, uint64(c.id), c.closeHash)
					joinVC(&p.vc, c.closeVC)
				}
			case opSend:
				if po.ch == c {
					po.completed = true
					po.panicMsg = "send on closed channel"
				}
			}
			// selects are re-evaluated lazily: a closed channel makes their case ready
		}
	case opLock:
		if o.rw != nil {
			o.rw.w = true
			g.hash = mix(g.hash, 0x40, uint64(o.rw.id), o.rw.hash)
			joinVC(&g.vc, o.rw.vc)
			joinVC(&g.vc, o.rw.rvc)
			break
		}
		m := o.mu
		m.locked = true
		m.owner = g.ID
		g.hash = mix(g.hash, 0x40, uint64(m.ident()), m.hash)
		joinVC(&g.vc, m.vc)
	case opUnlock:
		if o.rw != nil {
			rw := o.rw
			if !rw.w {
				s.fatal(g, "sync: Unlock of unlocked RWMutex")
				return false
			}
			rw.w = false
			rw.hash = g.hash
			rw.vc = append([]uint32(nil), g.vc...)
			g.hash = mix(g.hash, 0x41, uint64(rw.id))
			g.tick()
			break
		}
		m := o.mu
		if !m.locked {
			s.fatal(g, "sync: unlock of unlocked mutex")
			return false
		}
		m.hash = g.hash
		m.vc = append(m.vc[:0], g.vc...)
		g.hash = mix(g.hash, 0x41, uint64(m.ident()))
		g.tick()
		// FIFO hand-off to the earliest waiter
		var w *G
		for _, p := range s.gs {
			if p == g || p.done || p.pend == nil || p.pend.completed || p.pend.kind != opLock || p.pend.mu != m {
				continue
			}
			if w == nil || p.pend.seq < w.pend.seq {
				w = p
			}
		}
		if w != nil {
			w.pend.completed = true
			m.owner = w.ID
			w.hash = mix(w.hash, 0x40, uint64(m.ident()), m.hash)
			joinVC(&w.vc, m.vc)
		} else {
			m.locked = false
		}
	case opRLock:
		o.rw.r++
		g.hash = mix(g.hash, 0x42, uint64(o.rw.id), o.rw.hash)
		joinVC(&g.vc, o.rw.vc)
	case opRUnlock:
		if o.rw.r <= 0 {
			s.fatal(g, "sync: RUnlock of unlocked RWMutex")
			return false
		}
		o.rw.r--
		joinVC(&o.rw.rvc, g.vc)
		g.hash = mix(g.hash, 0x43, uint64(o.rw.id))
		g.tick()
	case opOnce:
		on := o.once
		if !on.started {
			on.started = true
			o.rrun = true
			g.hash = mix(g.hash, 0x50, uint64(on.ident()))
		} else {
			g.hash = mix(g.hash, 0x51, uint64(on.ident()), on.hash)
			joinVC(&g.vc, on.vc)
		}
	case opOnceDone:
		on := o.once
		on.done = true
		on.hash = g.hash
		on.vc = append([]uint32(nil), g.vc...)
		g.tick()
	case opWgAdd:
		w := o.wg
		w.n += o.delta
		if w.n < 0 {
			o.panicMsg = "sync: negative WaitGroup counter"
			break
		}
		w.hash += g.hash
		joinVC(&w.vc, g.vc)
		g.hash = mix(g.hash, 0x60, uint64(w.ident()), uint64(int64(o.delta)))
		g.tick()
	case opWgWait:
		g.hash = mix(g.hash, 0x61, uint64(o.wg.ident()), o.wg.hash)
		joinVC(&g.vc, o.wg.vc)
	}
	o.completed = true
	return true
}

func (s *Sched) fatal(g *G, msg string) {
	s.logAt(g, Fatal{msg + " in " + g.Site})
	s.reason = "fatal"
}

func (s *Sched) doSend(g *G, o *op, c *chanCore, v any) {
	if c.closed {
		o.panicMsg = "send on closed channel"
		return
	}
	if len(c.buf) == 0 {
		if p := s.findPartner(g, c, false); p != nil {
			ph := p.hash
			pvc := append([]uint32(nil), p.vc...)
			s.completePartner(p, c, false, v, true, g.hash, g.vc)
			g.hash = mix(g.hash, 0x11, uint64(c.id), ph)
			if c.cap == 0 {
				joinVC(&g.vc, pvc)
			}
			g.tick()
			return
		}
	}
	// buffered
	c.buf = append(c.buf, bufElem{v: v, hash: g.hash, vc: append([]uint32(nil), g.vc...)})
	g.hash = mix(g.hash, 0x12, uint64(c.id))
	g.tick()
}

func (s *Sched) doRecv(g *G, o *op, c *chanCore) {
	if len(c.buf) > 0 {
		e := c.buf[0]
		c.buf = c.buf[1:]
		o.rval, o.rok = e.v, true
		g.hash = mix(g.hash, 0x13, uint64(c.id), e.hash)
		joinVC(&g.vc, e.vc)
		g.tick()
		// a sender blocked on the full buffer may now proceed
		if p := s.findPartner(g, c, true); p != nil {
			v := s.completePartner(p, c, true, nil, false, g.hash, nil)
			c.buf = append(c.buf, bufElem{v: v, hash: p.hash, vc: append([]uint32(nil), p.vc...)})
		}
		return
	}
	if p := s.findPartner(g, c, true); p != nil {
		ph := p.hash
		pvc := append([]uint32(nil), p.vc...)
		v := s.completePartner(p, c, true, nil, false, g.hash, g.vc)
		o.rval, o.rok = v, true
		g.hash = mix(g.hash, 0x14, uint64(c.id), ph)
		joinVC(&g.vc, pvc)
		g.tick()
		return
	}
	// closed
	o.rval, o.rok = nil, false
	g.hash = mix(g.hash, 0x31, uint64(c.id), c.closeHash)
	joinVC(&g.vc, c.closeVC)
}

func (s *Sched) fingerprint(last *G) uint64 {
	h := mix(uint64(s.now), uint64(last.ID))
	for _, g := range s.gs {
		if g.done {
			continue
		}
		var pk, po uint64
		if g.pend != nil && g != last {
			pk = uint64(g.pend.kind) + 1
			if g.pend.completed {
				pk |= 0x100
			}
			if g.pend.ch != nil {
				po = uint64(g.pend.ch.id)
			}
		}
		h = mix(h, uint64(g.ID), g.hash, pk, po)
	}
	for _, t := range s.timers {
		if t.active {
			h = mix(h, uint64(t.id), uint64(t.when-s.now))
		}
	}
	h = mix(h, uint64(len(s.log)))
	return h
}

func (s *Sched) logAt(g *G, v any) {
	id, site := -1, ""
	if g != nil {
		id, site = g.ID, g.Site
	}
	s.log = append(s.log, Event{T: s.now, G: id, Site: site, V: v})
}

// ---------------------------------------------------------------------------------------------
// API for rewritten code and harnesses

// Go spawns a library goroutine.
func Go(site string, f func()) { spawn(site, false, f) }

// GoEnv spawns a harness/environment goroutine.
func GoEnv(site string, f func()) { spawn(site, true, f) }

func spawn(site string, env bool, f func()) {
	if inert() {
		return
	}
	s := S
	g := s.newG(site, env, s.cur)
	if !env {
		s.logAt(s.cur, Spawned{Site: site, ID: g.ID})
	}
	s.start(g, f)
}

// Spawned is logged for every library goroutine started.
type Spawned struct {
	Site string
	ID   int
}

func (sp Spawned) String() string { return fmt.Sprintf("SPAWN g%d %s", sp.ID, sp.Site) }

// Choose is an environment choice with n alternatives; 0 is the default answer.
func Choose(n int, kind Kind) int {
	if inert() || n <= 1 {
		return 0
	}
	s := S
	pk := pkFree
	if kind == Fault {
		pk = pkFault
	}
	c := s.choice(n, pk, false)
	if c < 0 {
		// divergence: end the execution
		s.signalEnd()
		s.cur.park()
		return 0
	}
	s.cur.hash = mix(s.cur.hash, 0x70, uint64(c))
	return c
}

// Log appends an oracle-relevant event.
func Log(v any) {
	if inert() {
		return
	}
	S.logAt(S.cur, v)
}

// Now is the virtual clock.
func Now() Duration {
	if inert() {
		return 0
	}
	S.cur.hash = mix(S.cur.hash, 0x71, uint64(S.now))
	return S.now
}

// Yield is an explicit scheduling point.
func Yield() {
	if inert() {
		return
	}
	S.yield(&op{kind: opYield})
}

// StmtPoint is the statement-level scheduling point mcgen puts before every statement of the codec
// packages. It is inactive unless the scenario asks for it (Config.StmtPoints): lock-level points
// suffice where the race detector sees every shared access, which it does not for package-level
// buffers reached through a local alias (text := scratch[:0] ... unlock ... string(text)).
func StmtPoint() {
	if S == nil || S.cfg == nil || !S.cfg.StmtPoints || inert() {
		return
	}
	S.yield(&op{kind: opYield})
}

// Live lists the goroutines that have not finished, the caller excluded.
func Live() []GInfo {
	if inert() {
		return nil
	}
	var r []GInfo
	for _, g := range S.gs {
		if !g.done && g != S.cur {
			r = append(r, GInfo{g.ID, g.Site, g.Env, g.pendString()})
		}
	}
	return r
}

// Sleep blocks the caller for d of virtual time.
func Sleep(d Duration) {
	if inert() {
		return
	}
	s := S
	if d < 0 {
		d = 0
	}
	g := s.cur
	t := &Timer{id: s.nTimer, when: s.now + d, kind: tkWake, g: g, active: true, listed: true}
	s.nTimer++
	s.timers = append(s.timers, t)
	s.yield(&op{kind: opSleep})
}

// GID returns the id of the running goroutine.
func GID() int {
	if inert() {
		return -1
	}
	return S.cur.ID
}

// SetQuiet switches choice recording off (every choice takes its default and is not a branching
// point) or back on. Used for long deterministic prefixes such as 254 exchanges before a wrap.
func SetQuiet(q bool) {
	if inert() {
		return
	}
	S.quiet = q
}
