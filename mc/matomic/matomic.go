//go:build go1.18

// Package matomic replaces "sync/atomic" in rewritten code. Every atomic operation is a scheduling
// point (so the explorer interleaves other goroutines between a Load and a later Store of the same
// variable) and a synchronisation edge for the race detector (modelled by a lock around the
// operation: sequentially consistent atomics order the accesses before a Store before the accesses
// after a Load that observes it; the lock orders a little more than that, which can hide a race on
// other data but never invents one).
package matomic

import (
	"unsafe"

	"github.com/vapourismo/knx-go/verifmc/mc"
)

// per-execution table for the function-style API (atomic.AddUint32(&x, 1)): address -> lock
var (
	tabFor *mc.Sched
	tab    map[unsafe.Pointer]*mc.Mutex
)

func lockOf(p unsafe.Pointer) *mc.Mutex {
	if tabFor != mc.S || tab == nil {
		tabFor, tab = mc.S, map[unsafe.Pointer]*mc.Mutex{}
	}
	m := tab[p]
	if m == nil {
		m = &mc.Mutex{}
		tab[p] = m
	}
	return m
}

func with[T any](p *T, f func()) {
	m := lockOf(unsafe.Pointer(p))
	m.Lock()
	f()
	m.Unlock()
}

type integer interface {
	~int32 | ~int64 | ~uint32 | ~uint64 | ~uintptr
}

func add[T integer](p *T, d T) (r T) { with(p, func() { *p += d; r = *p }); return }
func load[T any](p *T) (r T)         { with(p, func() { r = *p }); return }
func store[T any](p *T, v T)         { with(p, func() { *p = v }) }
func swap[T any](p *T, v T) (old T)  { with(p, func() { old = *p; *p = v }); return }
func cas[T comparable](p *T, o, n T) (ok bool) {
	with(p, func() {
		if *p == o {
			*p, ok = n, true
		}
	})
	return
}

func AddInt32(p *int32, d int32) int32                                  { return add(p, d) }
func AddInt64(p *int64, d int64) int64                                  { return add(p, d) }
func AddUint32(p *uint32, d uint32) uint32                              { return add(p, d) }
func AddUint64(p *uint64, d uint64) uint64                              { return add(p, d) }
func AddUintptr(p *uintptr, d uintptr) uintptr                          { return add(p, d) }
func LoadInt32(p *int32) int32                                          { return load(p) }
func LoadInt64(p *int64) int64                                          { return load(p) }
func LoadUint32(p *uint32) uint32                                       { return load(p) }
func LoadUint64(p *uint64) uint64                                       { return load(p) }
func LoadUintptr(p *uintptr) uintptr                                    { return load(p) }
func LoadPointer(p *unsafe.Pointer) unsafe.Pointer                      { return load(p) }
func StoreInt32(p *int32, v int32)                                      { store(p, v) }
func StoreInt64(p *int64, v int64)                                      { store(p, v) }
func StoreUint32(p *uint32, v uint32)                                   { store(p, v) }
func StoreUint64(p *uint64, v uint64)                                   { store(p, v) }
func StoreUintptr(p *uintptr, v uintptr)                                { store(p, v) }
func StorePointer(p *unsafe.Pointer, v unsafe.Pointer)                  { store(p, v) }
func SwapInt32(p *int32, v int32) int32                                 { return swap(p, v) }
func SwapInt64(p *int64, v int64) int64                                 { return swap(p, v) }
func SwapUint32(p *uint32, v uint32) uint32                             { return swap(p, v) }
func SwapUint64(p *uint64, v uint64) uint64                             { return swap(p, v) }
func SwapUintptr(p *uintptr, v uintptr) uintptr                         { return swap(p, v) }
func SwapPointer(p *unsafe.Pointer, v unsafe.Pointer) unsafe.Pointer    { return swap(p, v) }
func CompareAndSwapInt32(p *int32, o, n int32) bool                     { return cas(p, o, n) }
func CompareAndSwapInt64(p *int64, o, n int64) bool                     { return cas(p, o, n) }
func CompareAndSwapUint32(p *uint32, o, n uint32) bool                  { return cas(p, o, n) }
func CompareAndSwapUint64(p *uint64, o, n uint64) bool                  { return cas(p, o, n) }
func CompareAndSwapUintptr(p *uintptr, o, n uintptr) bool               { return cas(p, o, n) }
func CompareAndSwapPointer(p *unsafe.Pointer, o, n unsafe.Pointer) bool { return cas(p, o, n) }

// typed API ------------------------------------------------------------------------------------

type num[T integer] struct {
	mu mc.Mutex
	v  T
}

func (x *num[T]) do(f func()) { x.mu.Lock(); f(); x.mu.Unlock() }

func (x *num[T]) Load() (r T)      { x.do(func() { r = x.v }); return }
func (x *num[T]) Store(v T)        { x.do(func() { x.v = v }) }
func (x *num[T]) Swap(v T) (old T) { x.do(func() { old = x.v; x.v = v }); return }
func (x *num[T]) Add(d T) (r T)    { x.do(func() { x.v += d; r = x.v }); return }
func (x *num[T]) CompareAndSwap(o, n T) (ok bool) {
	x.do(func() {
		if x.v == o {
			x.v, ok = n, true
		}
	})
	return
}

type (
	Int32   struct{ num[int32] }
	Int64   struct{ num[int64] }
	Uint32  struct{ num[uint32] }
	Uint64  struct{ num[uint64] }
	Uintptr struct{ num[uintptr] }
)

// Bool replaces atomic.Bool.
type Bool struct {
	mu mc.Mutex
	v  bool
}

func (x *Bool) do(f func())          { x.mu.Lock(); f(); x.mu.Unlock() }
func (x *Bool) Load() (r bool)       { x.do(func() { r = x.v }); return }
func (x *Bool) Store(v bool)         { x.do(func() { x.v = v }) }
func (x *Bool) Swap(v bool) (o bool) { x.do(func() { o = x.v; x.v = v }); return }
func (x *Bool) CompareAndSwap(o, n bool) (ok bool) {
	x.do(func() {
		if x.v == o {
			x.v, ok = n, true
		}
	})
	return
}

// Pointer replaces atomic.Pointer[T].
type Pointer[T any] struct {
	mu mc.Mutex
	v  *T
}

func (x *Pointer[T]) do(f func())      { x.mu.Lock(); f(); x.mu.Unlock() }
func (x *Pointer[T]) Load() (r *T)     { x.do(func() { r = x.v }); return }
func (x *Pointer[T]) Store(v *T)       { x.do(func() { x.v = v }) }
func (x *Pointer[T]) Swap(v *T) (o *T) { x.do(func() { o = x.v; x.v = v }); return }
func (x *Pointer[T]) CompareAndSwap(o, n *T) (ok bool) {
	x.do(func() {
		if x.v == o {
			x.v, ok = n, true
		}
	})
	return
}

// Value replaces atomic.Value (without its consistent-type check).
type Value struct {
	mu mc.Mutex
	v  any
}

func (x *Value) do(f func())        { x.mu.Lock(); f(); x.mu.Unlock() }
func (x *Value) Load() (r any)      { x.do(func() { r = x.v }); return }
func (x *Value) Store(v any)        { x.do(func() { x.v = v }) }
func (x *Value) Swap(v any) (o any) { x.do(func() { o = x.v; x.v = v }); return }
func (x *Value) CompareAndSwap(o, n any) (ok bool) {
	x.do(func() {
		if x.v == o {
			x.v, ok = n, true
		}
	})
	return
}
