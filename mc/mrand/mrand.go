//go:build go1.18

// Package mrand replaces "math/rand": every draw is a free choice between the extremes.
package mrand

import "github.com/vapourismo/knx-go/verifmc/mc"

// Float64 is 0 or 0.999 (free choice).
func Float64() float64 {
	if mc.Choose(2, mc.Free) == 0 {
		return 0
	}
	return 0.999
}

func Intn(n int) int {
	if n <= 1 {
		return 0
	}
	if mc.Choose(2, mc.Free) == 0 {
		return 0
	}
	return n - 1
}
