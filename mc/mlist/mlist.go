//go:build go1.18

// Package mlist replaces "container/list": the real list plus access logging for the
// happens-before race detector (every method is a read or a write of the list as one location).
package mlist

import (
	"container/list"

	"github.com/vapourismo/knx-go/verifmc/mc"
)

type Element = list.Element

type List struct {
	l   *list.List
	loc byte
}

func New() *List { return &List{l: list.New()} }

func (l *List) Len() int        { mc.R(&l.loc, "list.Len"); return l.l.Len() }
func (l *List) Front() *Element { mc.R(&l.loc, "list.Front"); return l.l.Front() }
func (l *List) Back() *Element  { mc.R(&l.loc, "list.Back"); return l.l.Back() }
func (l *List) PushBack(v interface{}) *Element {
	mc.W(&l.loc, "list.PushBack")
	return l.l.PushBack(v)
}
func (l *List) PushFront(v interface{}) *Element {
	mc.W(&l.loc, "list.PushFront")
	return l.l.PushFront(v)
}
func (l *List) Remove(e *Element) interface{} { mc.W(&l.loc, "list.Remove"); return l.l.Remove(e) }
func (l *List) Init() *List                   { mc.W(&l.loc, "list.Init"); l.l.Init(); return l }
