//go:build go1.18

// Package vnet replaces "net" in rewritten code. Address types and pure helpers are the real
// ones; connections are virtual endpoints whose reads block under the mc scheduler and return
// exactly what the harness injected, and whose writes are logged.
package vnet

import (
	"errors"
	"io"
	"net"
	"time"

	"github.com/vapourismo/knx-go/verifmc/mc"
)

type (
	Addr         = net.Addr
	UDPAddr      = net.UDPAddr
	TCPAddr      = net.TCPAddr
	IP           = net.IP
	Interface    = net.Interface
	HardwareAddr = net.HardwareAddr
)

func ResolveUDPAddr(network, address string) (*UDPAddr, error) {
	return net.ResolveUDPAddr(network, address)
}
func ResolveTCPAddr(network, address string) (*TCPAddr, error) {
	return net.ResolveTCPAddr(network, address)
}
func SplitHostPort(hostport string) (string, string, error) { return net.SplitHostPort(hostport) }
func ParseIP(s string) IP                                   { return net.ParseIP(s) }
func IPv4(a, b, c, d byte) IP                               { return net.IPv4(a, b, c, d) }

// Conn is the subset of net.Conn the library uses.
type Conn interface {
	Read(b []byte) (int, error)
	Write(b []byte) (int, error)
	Close() error
	LocalAddr() Addr
	RemoteAddr() Addr
	SetDeadline(t time.Time) error
}

// ErrClosed mirrors net.ErrClosed.
var ErrClosed = errors.New("use of closed network connection")

type seg struct {
	data []byte
	from *UDPAddr
	err  error
	cost int
}

// WriteRec is one logged write.
type WriteRec struct {
	T    mc.Duration
	G    int
	Data []byte
	To   *UDPAddr
}

// Endpoint is a virtual socket.
type Endpoint struct {
	Kind      string // "udp-dial", "tcp-dial", "udp-listen"
	Local     Addr
	Remote    Addr
	q         *mc.Chan[seg]
	rest      []byte
	Writes    []WriteRec
	Closed    bool
	CloseN    int
	WriteErr  error
	Joined    []string
	Loopback  bool
	OnWrite   func(w WriteRec) // called in the writer's goroutine after logging
	ReadCalls int
	ShortRead bool // TCP: Read returns at most len(p) of the injected segment (always true) ...
	Linger    *int
	Discarded []WriteRec // SetLinger(0): writes of the instant of Close, which the kernel never sent
	OnDiscard func(w WriteRec)
	// UDP receive queue of the (virtual) kernel: datagrams wait here until the socket's reader takes
	// them; one that does not fit is dropped silently, as the kernel does. Accounting follows Linux:
	// the default capacity is net.core.rmem_default (212992), SetReadBuffer(n) sets 2*n (not below
	// 2304), a queued datagram is charged with its buffer's true size (512 + its length rounded up to
	// a multiple of 256: 768 for the small KNXnet/IP frames, i.e. about 277 of them by default).
	ReuseAddr bool // udp-listen: created with SO_REUSEADDR (a multicast listen address)
	RcvBuf    int
	rcvQueued int
	Dropped   [][]byte // datagrams the receive queue had no room for
	OnDrop    func(data []byte)
}

// DefaultRcvBuf is the receive buffer size of a UDP socket that was not configured.
const DefaultRcvBuf = 212992

func dgramCost(n int) int { return 512 + 256*((n+255)/256) }

type UDPConn struct{ *Endpoint }
type TCPConn struct{ *Endpoint }

// World is the virtual network of one execution.
type World struct {
	LocalUDP  *UDPAddr
	LocalTCP  *TCPAddr
	DialErr   error
	Endpoints []*Endpoint
	OnCreate  func(e *Endpoint)
}

// Cur is reset by the harness at the start of every execution.
var Cur *World

// Reset installs a fresh world.
func Reset() *World {
	Cur = &World{
		LocalUDP: &UDPAddr{IP: net.IPv4(192, 0, 2, 7), Port: 50000},
		LocalTCP: &TCPAddr{IP: net.IPv4(192, 0, 2, 7), Port: 50001},
	}
	return Cur
}

func (w *World) add(e *Endpoint) {
	e.q = mc.NewChan[seg](1<<20, "vnet:"+e.Kind)
	w.Endpoints = append(w.Endpoints, e)
	if w.OnCreate != nil {
		w.OnCreate(e)
	}
}

func DialUDP(network string, laddr, raddr *UDPAddr) (*UDPConn, error) {
	w := Cur
	if w.DialErr != nil {
		return nil, w.DialErr
	}
	e := &Endpoint{Kind: "udp-dial", Local: w.LocalUDP, Remote: raddr}
	w.add(e)
	return &UDPConn{e}, nil
}

func DialTCP(network string, laddr, raddr *TCPAddr) (*TCPConn, error) {
	w := Cur
	if w.DialErr != nil {
		return nil, w.DialErr
	}
	e := &Endpoint{Kind: "tcp-dial", Local: w.LocalTCP, Remote: raddr}
	w.add(e)
	return &TCPConn{e}, nil
}

func ListenUDP(network string, laddr *UDPAddr) (*UDPConn, error) {
	w := Cur
	if w.DialErr != nil {
		return nil, w.DialErr
	}
	// Port sharing as net.ListenUDP does it: a socket listening on a multicast group address is
	// created with SO_REUSEADDR (and bound to the wildcard address); any other listening socket owns
	// its port. Two open sockets share a port only if both were created with the option.
	reuse := laddr != nil && laddr.IP != nil && laddr.IP.IsMulticast()
	if laddr != nil && laddr.Port != 0 {
		for _, o := range w.Endpoints {
			if o.Kind == "udp-listen" && !o.Closed {
				if oa, ok := o.Local.(*UDPAddr); ok && oa != nil && oa.Port == laddr.Port && !(o.ReuseAddr && reuse) {
					return nil, &net.OpError{Op: "listen", Net: network, Addr: laddr, Err: errors.New("bind: address already in use")}
				}
			}
		}
	}
	e := &Endpoint{Kind: "udp-listen", Local: laddr, ReuseAddr: reuse}
	w.add(e)
	return &UDPConn{e}, nil
}

// ---- harness side ----

// Inject queues a datagram (UDP) or a segment (TCP) for the reader.
func (e *Endpoint) Inject(data []byte, from *UDPAddr) {
	if e.Closed {
		return
	}
	defer func() { recover() }() // the endpoint may be closed while the queue operation is pending
	cost := 0
	if e.Kind != "tcp-dial" {
		cost = dgramCost(len(data))
		lim := e.RcvBuf
		if lim == 0 {
			lim = DefaultRcvBuf
		}
		if e.rcvQueued+cost > lim {
			d := append([]byte(nil), data...)
			e.Dropped = append(e.Dropped, d)
			if e.OnDrop != nil {
				e.OnDrop(d)
			}
			return
		}
		e.rcvQueued += cost
	}
	e.q.Send(seg{data: append([]byte(nil), data...), from: from, cost: cost})
}

// InjectErr makes the next read (after queued data) fail with err (io.EOF = peer closed).
func (e *Endpoint) InjectErr(err error) {
	if e.Closed {
		return
	}
	defer func() { recover() }()
	e.q.Send(seg{err: err})
}

// ---- library side ----

func (e *Endpoint) next() (seg, error) {
	if e.Closed {
		return seg{}, ErrClosed
	}
	e.ReadCalls++
	s, ok := e.q.Recv2()
	if e.Closed || !ok {
		return seg{}, ErrClosed
	}
	if s.err != nil {
		return seg{}, s.err
	}
	e.rcvQueued -= s.cost
	return s, nil
}

func (e *Endpoint) ReadFromUDP(b []byte) (int, *UDPAddr, error) {
	s, err := e.next()
	if err != nil {
		return 0, nil, err
	}
	n := copy(b, s.data)
	from := s.from
	if from == nil {
		if ua, ok := e.Remote.(*UDPAddr); ok {
			from = ua
		} else {
			from = &UDPAddr{IP: net.IPv4(192, 0, 2, 99), Port: 3671}
		}
	}
	return n, from, nil
}

// Read: datagram semantics for UDP (rest discarded), stream semantics for TCP.
func (e *Endpoint) Read(b []byte) (int, error) {
	if len(b) == 0 {
		return 0, nil
	}
	if e.Kind == "tcp-dial" && len(e.rest) > 0 {
		n := copy(b, e.rest)
		e.rest = e.rest[n:]
		return n, nil
	}
	s, err := e.next()
	if err != nil {
		return 0, err
	}
	n := copy(b, s.data)
	if e.Kind == "tcp-dial" {
		e.rest = s.data[n:]
	}
	return n, nil
}

func (e *Endpoint) write(b []byte, to *UDPAddr) (int, error) {
	mc.Yield()
	if e.Closed {
		return 0, ErrClosed
	}
	if e.WriteErr != nil {
		return 0, e.WriteErr
	}
	w := WriteRec{T: mc.Now(), G: mc.GID(), Data: append([]byte(nil), b...), To: to}
	e.Writes = append(e.Writes, w)
	if e.OnWrite != nil {
		e.OnWrite(w)
	}
	return len(b), nil
}

func (e *Endpoint) Write(b []byte) (int, error)                  { return e.write(b, nil) }
func (e *Endpoint) WriteToUDP(b []byte, a *UDPAddr) (int, error) { return e.write(b, a) }

func (e *Endpoint) Close() error {
	mc.Yield()
	e.CloseN++
	if e.Closed {
		return ErrClosed
	}
	e.Closed = true
	e.q.Close()
	if e.Linger != nil && *e.Linger == 0 && e.Kind == "tcp-dial" {
		for _, w := range e.Writes {
			if w.T == mc.Now() {
				e.Discarded = append(e.Discarded, w)
				if e.OnDiscard != nil {
					e.OnDiscard(w)
				}
			}
		}
	}
	return nil
}

func (e *Endpoint) LocalAddr() Addr               { return e.Local }
func (e *Endpoint) RemoteAddr() Addr              { return e.Remote }
func (e *Endpoint) SetDeadline(t time.Time) error { return nil }

// Socket options and the rest of the net.UDPConn / net.TCPConn surface a change to the library may
// start to use: accepted, without effect on the virtual network - except SetLinger(0), see Close.
func (e *Endpoint) SetReadDeadline(t time.Time) error  { return nil }
func (e *Endpoint) SetWriteDeadline(t time.Time) error { return nil }
func (e *Endpoint) SetReadBuffer(bytes int) error {
	e.RcvBuf = 2 * bytes
	if e.RcvBuf < 2304 {
		e.RcvBuf = 2304
	}
	return nil
}
func (e *Endpoint) SetWriteBuffer(bytes int) error           { return nil }
func (e *Endpoint) SetKeepAlive(keepalive bool) error        { return nil }
func (e *Endpoint) SetKeepAlivePeriod(d time.Duration) error { return nil }
func (e *Endpoint) SetNoDelay(noDelay bool) error            { return nil }
func (e *Endpoint) CloseRead() error                         { return nil }
func (e *Endpoint) CloseWrite() error                        { return nil }
func (e *Endpoint) ReadFrom(b []byte) (int, Addr, error) {
	n, a, err := e.ReadFromUDP(b)
	return n, a, err
}
func (e *Endpoint) WriteTo(b []byte, a Addr) (int, error) {
	u, _ := a.(*UDPAddr)
	return e.write(b, u)
}

// SetLinger(0) makes the kernel throw away what Write has accepted but not yet transmitted when the
// connection is closed, and abort it with a reset. The virtual network models that: the frames
// written at the very instant of the Close (no time has passed in which they could have left) are
// reported as discarded (Discarded is filled, OnDiscard called), and scenarios treat them as never
// having reached the peer.
func (e *Endpoint) SetLinger(sec int) error {
	e.Linger = &sec
	return nil
}

var _ = io.EOF
