//go:build go1.18

// Package vipv4 replaces golang.org/x/net/ipv4 for socket.go.
package vipv4

import (
	"net"

	"github.com/vapourismo/knx-go/verifmc/vnet"
)

type PacketConn struct{ e *vnet.Endpoint }

func NewPacketConn(c *vnet.UDPConn) *PacketConn { return &PacketConn{c.Endpoint} }

func (p *PacketConn) JoinGroup(ifi *net.Interface, group net.Addr) error {
	p.e.Joined = append(p.e.Joined, group.String())
	return nil
}
func (p *PacketConn) MulticastLoopback() (bool, error) { return p.e.Loopback, nil }
func (p *PacketConn) SetMulticastLoopback(on bool) error {
	p.e.Loopback = on
	return nil
}
