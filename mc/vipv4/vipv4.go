//go:build go1.18

// Package vipv4 replaces golang.org/x/net/ipv4 for socket.go.
package vipv4

import (
	"net"

	"github.com/vapourismo/knx-go/verifmc/vnet"
)

type PacketConn struct{ e *vnet.Endpoint }

func NewPacketConn(c *vnet.UDPConn) *PacketConn { return &PacketConn{c.Endpoint} }

func (p *PacketConn) JoinGroup(ifi *net.Interface, group net.Addr) error {
	p.e.Joined = append(p.e.Joined, group.String())
	return nil
}
func (p *PacketConn) MulticastLoopback() (bool, error) { return p.e.Loopback, nil }
func (p *PacketConn) SetMulticastLoopback(on bool) error {
	p.e.Loopback = on
	return nil
}

// further ipv4.PacketConn options a change to the library may start to use: accepted, no effect
func (p *PacketConn) LeaveGroup(ifi *net.Interface, group net.Addr) error { return nil }
func (p *PacketConn) SetMulticastTTL(ttl int) error                       { return nil }
func (p *PacketConn) SetMulticastInterface(ifi *net.Interface) error      { return nil }
func (p *PacketConn) SetTTL(ttl int) error                                { return nil }
func (p *PacketConn) SetTOS(tos int) error                                { return nil }
func (p *PacketConn) Close() error                                        { return p.e.Close() }
