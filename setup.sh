#!/bin/bash
# Offline setup: build the rewriter and warm the Go build cache with both checker binaries.
set -e
export GOFLAGS=-mod=mod GOPROXY=off GOSUMDB=off GOTOOLCHAIN=local
cd "$(dirname "$0")"
mkdir -p bin evidence replays
(cd mcgen && go build -o ../bin/mcgen .)
W=$(mktemp -d /var/tmp/knx-verif-setup.XXXXXX)
trap 'rm -rf "$W"' EXIT
bin/mcgen -repo /repo -out "$W" -mc "$PWD/mc" -hooks "$PWD/hooks"
go build -tags verif -overlay "$W/overlay.json" -o "$W/mccheck" ./harness/cmd/mccheck
go build -o bin/globgen ./enum/cmd/globgen
bin/globgen -repo /repo -out "$W" knx/dpt knx/cemi knx/knxnet knx/util
go build -tags verif -overlay "$W/globals-overlay.json" -o "$W/enumcheck" ./enum/cmd/enumcheck
echo setup ok
