#!/bin/bash
# tools/runall.sh [tier]: run every claimed check, validate evidence files against the schema.
cd "$(dirname "$0")/.."
tier=${1:-quick}
for p in $(python3 -c "import json;print(' '.join(c['property_id'] for c in json.load(open('MANIFEST.json'))['checks']))"); do
  t0=$(date +%s)
  out=$(./check $p $tier 2>&1); rc=$?
  t1=$(date +%s)
  v=$(python3-vt -c "
import json,jsonschema,sys
try:
    jsonschema.validate(json.load(open('evidence/$p.json')), json.load(open('/root/.vp/EVIDENCE.schema.json'))); print('evidence-ok')
except Exception as e: print('EVIDENCE-BAD', str(e)[:100])")
  echo "$p rc=$rc $((t1-t0))s $v $(echo "$out" | grep -c '^VIOLATION') violations $(echo "$out" | grep -c '^KNOWN-FINDING') known | $(echo "$out" | tail -1 | cut -c1-160)"
done
