#!/usr/bin/env python3
"""Regenerates /verif/MANIFEST.json from the table below (claimed checks / not_applicable)."""
import json, os
V = os.path.dirname(os.path.dirname(os.path.abspath(__file__)))
MC_NOTE = "assumptions A1-A3 of DESIGN §4 (library code takes zero virtual time, SC interleavings at visible operations, harness-enumerated network); FIFO channel/mutex queues; sources rewritten mechanically by mcgen from /repo's working tree at check time"
EN_NOTE = "trusted base: the reference models/oracles under /verif/enum (written from the property text and the KNX formats, DESIGN Appendix B/C) and the Go toolchain; bounded by the enumerated spaces listed in the evidence file"
MC_TECH = "stateless model checking (controlled scheduler, deviation-bounded DFS over the real code)"
EN_TECH = "bounded exhaustive enumeration of the input space against a reference model (explicit-state exploration of all cases within stated bounds), plus stateless model checking of concurrent callers of the same code under the controlled scheduler (mc engine)"
# id -> (engine, category, text) ; absent ids go to not_applicable with the reason in NA
CLAIMED = {}
NA = {}
def mc(pid, text): CLAIMED[pid] = ("mc", "model_checking", text, MC_NOTE, MC_TECH)
def en(pid, text): CLAIMED[pid] = ("enum", "exploration", text, EN_NOTE, EN_TECH)
exec(open(os.path.join(V, "tools", "claims.py")).read())
props = [json.loads(l)["id"] for l in open(os.path.join(V, "properties.jsonl"))]
checks = []
for p in props:
    if p in CLAIMED:
        eng, cat, text, note, tech = CLAIMED[p]
        checks.append({"property_id": p, "quick_cmd": f"./check {p} quick", "thorough_cmd": f"./check {p} thorough",
                       "evidence_file": f"/verif/evidence/{p}.json", "replay_cmd_template": "./check --replay {path}",
                       "engine": eng, "level_claimed": {"category": cat, "text": text, "design_ref": f"DESIGN.md §5 {p}"},
                       "level_note": note, "technique": tech})
na = [{"property_id": p, "reason": NA.get(p, "check not yet built in this session (planned: DESIGN.md §5); not claimed")} for p in props if p not in CLAIMED]
mcprops = [p for p in props if p in CLAIMED and (CLAIMED[p][0] == "mc" or p in ("C01", "C02", "C06", "C07", "C08", "C11", "C15", "C18", "C19"))]
enprops = [p for p in props if p in CLAIMED and CLAIMED[p][0] == "enum"]
m = {"version": 1, "setup_cmd": "cd /verif && ./setup.sh",
     "hooks": {"guard": "verif (overlay-only: /repo carries no hook code; rewritten sources, hook constructors and the controlled runtime are mapped in with go build -overlay and every harness file is tagged //go:build verif)",
               "enable": "cd /verif && bin/mcgen -repo /repo -out $W -mc /verif/mc -hooks /verif/hooks && go build -tags verif -overlay $W/overlay.json ./harness/cmd/mccheck  (done by ./check)",
               "baseline_off_cmd": "cd /repo && GOFLAGS=-mod=mod GOPROXY=off go test -vet=off -count=1 ./...",
               "source_commits": [], "add_only": True},
     "engines": [{"name": "mc", "path": "/verif/mc", "serves_properties": mcprops, "kind_free_text": "controlled cooperative scheduler + deviation-bounded DFS explorer over the real code rewritten by mcgen (stateless model checking); /verif/harness holds scenarios and oracles"},
                 {"name": "mcgen", "path": "/verif/mcgen", "serves_properties": mcprops, "kind_free_text": "source rewriter: channels/select/go/sync/time/net -> controlled runtime"},
                 {"name": "enum", "path": "/verif/enum", "serves_properties": enprops, "kind_free_text": "bounded exhaustive input-space enumeration against reference models"}],
     "checks": checks, "not_applicable": na, "notes": "see DESIGN.md; known findings and fixed defects: known_findings.json"}
json.dump(m, open(os.path.join(V, "MANIFEST.json"), "w"), indent=1)
print("claimed:", [c["property_id"] for c in checks], "not claimed:", [x["property_id"] for x in na])
