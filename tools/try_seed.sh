#!/bin/bash
# tools/try_seed.sh <dir-with-patch.diff> <prop> [check args...]: quick check of <prop> against a scratch
# copy of /repo's HEAD with the patch applied (VERIF_REPO, VERIF_OUT); /repo itself is not touched.
d=$1; prop=$2; shift; shift
B=$(mktemp -d /var/tmp/tryseed.XXXXXX); trap 'rm -rf "$B"' EXIT
mkdir "$B/r" && git -C /repo archive HEAD | tar -x -C "$B/r" && (cd "$B/r" && git apply "$d/patch.diff") || exit 3
VERIF_REPO="$B/r" VERIF_OUT="$B/out" /verif/check "$prop" quick "$@" 2>&1 | grep -v "^  scenario.*classes=map\[\]" | tail -${TAIL:-12}
echo "exit=${PIPESTATUS[0]}"
