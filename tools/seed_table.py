#!/usr/bin/env python3
"""Regenerates the table of seeded changes at the end of DESIGN.md from /verif/seeded/*/meta.json."""
import json, glob, os, re
V = os.path.dirname(os.path.dirname(os.path.abspath(__file__)))
rows = []
for f in sorted(glob.glob(os.path.join(V, "seeded", "*", "meta.json"))):
    m = json.load(open(f))
    d = os.path.dirname(f)
    notes = ""
    np = os.path.join(d, "notes.md")
    if os.path.exists(np):
        txt = open(np).read()
        para = [l.strip() for l in txt.splitlines() if l.strip() and not l.startswith("#")]
        notes = " ".join(para)[:260].replace("|", "/")
    det = m.get("detected_by", [])
    classes = []
    for p in det:
        classes += m["checks"][p]["classes"][:2]
    ok = m.get("repo_suite_passes_with_change") and m.get("demo_fails_with_change") and m.get("demo_passes_without_change")
    rows.append("| %s | %s | %s | %s | %s | %s |" % (m["name"], m["property"], "yes" if ok else "NO (%s/%s/%s)" % (m.get("repo_suite_passes_with_change"), m.get("demo_fails_with_change"), m.get("demo_passes_without_change")),
                ", ".join(det) if det else "**missed**", "; ".join(classes)[:160], (m.get("note", "") + " " + notes).strip()[:420]))
head = ["<!-- seeded-table:begin -->", "## 13. Seeded changes by independent sub-agents", "",
        "Each sub-agent saw only the text of one property and a scratch worktree of /repo (nothing from /verif). A change is kept only",
        "after `tools/seed_eval.py` confirmed it: the patch applies, the repository suite passes with it, the demonstration fails with",
        "it and passes without it. Then the patch is applied to /repo itself (`git -C /repo apply`), the quick checks named under",
        "'caught by' are run and exit 1, and the patch is undone (`git -C /repo checkout -- .`). Round `-a` is the first attempt per",
        "property, round `-b` a second attempt that had to use a different mechanism, site and trigger.", "",
        "| change | property | confirmed (suite passes, demo fails with / passes without) | caught by | violation classes | what it is / remarks |",
        "|---|---|---|---|---|---|"]
block = "\n".join(head + rows + ["<!-- seeded-table:end -->"]) + "\n"
p = os.path.join(V, "DESIGN.md")
s = open(p).read()
if "<!-- seeded-table:begin -->" in s:
    s = re.sub(r"<!-- seeded-table:begin -->.*<!-- seeded-table:end -->\n", block, s, flags=re.S)
else:
    s = s.rstrip("\n") + "\n\n" + block
open(p, "w").write(s)
print(len(rows), "rows")
