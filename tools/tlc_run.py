#!/usr/bin/env python3
"""tlc_run.py <tier> <workdir> <verifdir>: the TLA+ half of C05.
1. TLC checks the invariants of TunnelLink.tla on the tier's model-checking configuration (all
   reachable states); 2. TLC dumps the labelled state graph of the conformance configuration and
   tla/graph.py turns it into an edge-covering path set (<workdir>/g.json); 3. TLC is asked whether
   the statement's own hazard is reachable. Writes <workdir>/tlc.json."""
import json, os, re, shutil, subprocess, sys, time
tier, W, V = sys.argv[1], sys.argv[2], sys.argv[3]
D = os.path.join(W, "tla")
os.makedirs(D, exist_ok=True)
for f in os.listdir(os.path.join(V, "tla")):
    if f.endswith((".tla", ".cfg")):
        shutil.copy(os.path.join(V, "tla", f), D)
ncpu = os.cpu_count() or 4
def tlc(cfg, extra=()):
    t0 = time.time()
    meta = os.path.join(D, "meta-" + cfg)
    p = subprocess.run(["tlc", "-workers", str(ncpu), "-config", cfg, "-metadir", meta, *extra, "TunnelLink.tla"],
                       cwd=D, capture_output=True, text=True)
    shutil.rmtree(meta, ignore_errors=True)
    out = p.stdout + p.stderr
    r = {"config": cfg, "constants": open(os.path.join(D, cfg)).read().splitlines()[1].strip(), "wall_s": round(time.time() - t0, 1)}
    m = re.search(r"(\d+) states generated, (\d+) distinct states found, (\d+) states left on queue", out)
    if m:
        r.update(states_generated=int(m.group(1)), distinct_states=int(m.group(2)), left_on_queue=int(m.group(3)))
    m = re.search(r"depth of the complete state graph search is (\d+)", out)
    if m:
        r["depth"] = int(m.group(1))
    m = re.search(r"Invariant (\w+) is violated", out)
    r["invariant_violated"] = m.group(1) if m else None
    r["completed"] = "Model checking completed" in out or bool(m)
    if m:
        i = out.find("Error: Invariant")
        r["trace"] = out[i:i + 20000]
    if not r["completed"] and not m:
        r["error"] = out[-3000:]
    return r
res = {"spec": "tla/TunnelLink.tla", "tlc_version": "TLC2 (pre-installed)"}
res["model_check"] = tlc("mc-%s.cfg" % tier)
dot = os.path.join(D, "g.dot")
res["conformance_graph"] = tlc("conf-%s.cfg" % tier, ("-dump", "dot,actionlabels", dot))
g = subprocess.run([sys.executable, os.path.join(V, "tla", "graph.py"), dot, os.path.join(W, "g.json")], capture_output=True, text=True)
res["graph_py"] = (g.stdout + g.stderr).strip()
res["graph_ok"] = g.returncode == 0
try:
    os.remove(dot)
except OSError:
    pass
hz = tlc("hazard-%s.cfg" % tier)
res["hazard_query"] = {k: hz.get(k) for k in ("config", "constants", "invariant_violated", "distinct_states", "wall_s")}
res["hazard_reachable"] = hz.get("invariant_violated") == "NoLostSuccess"
if hz.get("trace"):
    res["hazard_trace_excerpt"] = [l for l in hz["trace"].splitlines() if re.match(r"State \d+:|/\\ (last|bus|sendOK|sendFail) =", l)][:400]
json.dump(res, open(os.path.join(W, "tlc.json"), "w"), indent=1)
mc = res["model_check"]
print("  TLC %s: %s distinct states, %s transitions generated, depth %s, invariant violated: %s, %.0fs" % (mc["constants"], mc.get("distinct_states"), mc.get("states_generated"), mc.get("depth"), mc.get("invariant_violated"), mc["wall_s"]))
print("  TLC hazard query: reachable=%s; %s" % (res["hazard_reachable"], res["graph_py"]))
sys.exit(0 if res["graph_ok"] and mc.get("completed") else 2)
