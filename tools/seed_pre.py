#!/usr/bin/env python3
"""seed_pre.py <round-dir> <Cxx> [extra props...]
Parallel-safe first look at a delivered seeded change (the record is made by seed_eval.py, which
applies the patch to /repo itself): scratch copies of /repo's HEAD under /var/tmp, confirmation
(suite passes with the change, demonstration fails with it and passes without it) and the quick
checks against the copy (VERIF_REPO / VERIF_OUT). Writes <round-dir>/out/<Cxx>/pre.json."""
import json, os, re, shutil, subprocess, sys, tempfile, time
rd, prop = sys.argv[1], sys.argv[2]
extra = sys.argv[3:]
out = f"{rd}/out/{prop}"
env = dict(os.environ, GOFLAGS="-mod=mod", GOPROXY="off", GOSUMDB="off", GOTOOLCHAIN="local")
def run(cmd, cwd=None, timeout=3600, e=None):
    p = subprocess.run(cmd, cwd=cwd, env=e or env, capture_output=True, text=True, timeout=timeout)
    return p.returncode, p.stdout + p.stderr
base = tempfile.mkdtemp(prefix=f"seedpre.{prop}.", dir="/var/tmp")
res = {"property": prop}
try:
    for n in ("with", "without"):
        os.mkdir(f"{base}/{n}")
        subprocess.run(f"git -C /repo archive HEAD | tar -x -C {base}/{n}", shell=True, check=True)
    rc, o = run(["git", "apply", f"{out}/patch.diff"], cwd=f"{base}/with")
    res["patch_applies"] = rc == 0
    if rc != 0:
        res["error"] = o[-400:]
        raise SystemExit
    rc, o = run(["go", "build", "./..."], cwd=f"{base}/with"); res["compiles"] = rc == 0
    rc, o = run(["go", "test", "-vet=off", "-count=1", "./..."], cwd=f"{base}/with"); res["suite_passes"] = rc == 0
    if rc != 0: res["suite_out"] = o[-800:]
    pkg = open(f"{out}/pkg.txt").read().strip().strip("/")
    if pkg.startswith("./"): pkg = pkg[2:]
    res["pkg"] = pkg
    names = re.findall(r"^func (Test\w+)\(", open(f"{out}/demo_test.go").read(), re.M)
    rx = "^(" + "|".join(names) + ")$"
    for n in ("with", "without"):
        shutil.copy(f"{out}/demo_test.go", f"{base}/{n}/{pkg}/zz_seed_demo_test.go")
        rc, o = run(["go", "test", "-vet=off", "-count=1", "-run", rx, "./" + pkg], cwd=f"{base}/{n}", timeout=900)
        res["demo_rc_" + n] = rc
        if (n == "with") == (rc == 0): res["demo_out_" + n] = o[-800:]
        os.remove(f"{base}/{n}/{pkg}/zz_seed_demo_test.go")
    res["checks"] = {}
    for p in [prop] + extra:
        t0 = time.time()
        rc, o = run(["/verif/check", p, "quick"], cwd="/verif", e=dict(env, VERIF_REPO=f"{base}/with", VERIF_OUT=f"{base}/out"))
        viol = [l for l in o.splitlines() if l.startswith("VIOLATION")]
        classes = sorted(set(l.split("class=")[1].split()[0] for l in o.splitlines() if "class=" in l))
        res["checks"][p] = {"exit": rc, "violations": len(viol), "classes": classes[:10], "wall_s": int(time.time() - t0), "tail": o[-300:] if rc not in (0, 1) else ""}
finally:
    shutil.rmtree(base, ignore_errors=True)
    json.dump(res, open(f"{out}/pre.json", "w"), indent=1)
    print(json.dumps(res)[:1500])
