#!/usr/bin/env python3
"""seed_regress.py [-j N] [name-glob ...]
Regression over the kept seeded changes: for each /verif/seeded/<name>, a scratch copy of /repo's HEAD
(git archive) with patch.diff applied is checked with the quick check of every property listed in
the seed's detected_by (VERIF_REPO=<copy>); each of them must still exit 1 with a VIOLATION line.
/repo itself is not touched. Scratch copies live under /var/tmp/seedreg.* and are removed."""
import concurrent.futures as cf, fnmatch, glob, json, os, shutil, subprocess, sys, tempfile, time

args = sys.argv[1:]
jobs = 4
if args[:1] == ["-j"]:
    jobs = int(args[1]); args = args[2:]
pats = args or ["*"]
root = "/verif/seeded"
names = sorted(n for n in os.listdir(root) if os.path.isfile(f"{root}/{n}/meta.json") and any(fnmatch.fnmatch(n, p) for p in pats))
base = tempfile.mkdtemp(prefix="seedreg.", dir="/var/tmp")
clean = f"{base}/clean"
os.mkdir(clean)
subprocess.run(f"git -C /repo archive HEAD | tar -x -C {clean}", shell=True, check=True)

def one(name):
    meta = json.load(open(f"{root}/{name}/meta.json"))
    props = meta.get("detected_by") or []
    d = f"{base}/{name}"
    shutil.copytree(clean, d)
    try:
        p = subprocess.run(["patch", "-s", "-p1", "-i", f"{root}/{name}/patch.diff"], cwd=d, capture_output=True, text=True)
        if p.returncode != 0:
            return name, "PATCH-FAILS", p.stdout[-300:]
        res = []
        for prop in props:
            t0 = time.time()
            q = subprocess.run(["/verif/check", prop, "quick"], env=dict(os.environ, VERIF_REPO=d, VERIF_OUT=f"{base}/out-{name}"), capture_output=True, text=True)
            v = sum(1 for l in q.stdout.splitlines() if l.startswith("VIOLATION"))
            res.append((prop, q.returncode, v, int(time.time() - t0)))
        bad = [r for r in res if not (r[1] == 1 and r[2] > 0)]
        return name, ("OK" if not bad else "NOT-CAUGHT") if props else "NO-CHECK-LISTED", res
    finally:
        shutil.rmtree(d, ignore_errors=True)

try:
    with cf.ThreadPoolExecutor(jobs) as ex:
        for name, verdict, detail in ex.map(one, names):
            print(name, verdict, detail, flush=True)
finally:
    shutil.rmtree(base, ignore_errors=True)
