#!/usr/bin/env python3
"""seed_eval.py <name> <property> <outdir> [demo_pkg_dir] [extra check props...]
Confirms a seeded change produced by an independent sub-agent and runs the checks against it:
 1. scratch worktree of /repo under /var/tmp: the patch applies, the repository suite passes with it,
    the demonstration fails with it and passes without it;
 2. the patch is applied to /repo itself (git apply), the property's quick check is run, the patch
    is undone straight afterwards (git checkout -- .).
Stores /verif/seeded/<name>/{patch.diff, demo, notes.md, meta.json}."""
import json, os, shutil, subprocess, sys, time, glob
name, prop, out = sys.argv[1], sys.argv[2], sys.argv[3]
demo_pkg = sys.argv[4] if len(sys.argv) > 4 and sys.argv[4] != "-" else None
extra = sys.argv[5:]
env = dict(os.environ, GOFLAGS="-mod=mod", GOPROXY="off", GOSUMDB="off", GOTOOLCHAIN="local")
def run(cmd, cwd=None, timeout=1800, **kw):
    p = subprocess.run(cmd, cwd=cwd, env=env, capture_output=True, text=True, timeout=timeout, **kw)
    return p.returncode, (p.stdout + p.stderr)
patch = os.path.join(out, "patch.diff")
demo = os.path.join(out, "demo_test.go")
meta = {"name": name, "property": prop, "ran": []}
wt = "/var/tmp/seedeval." + name
subprocess.run(["git", "-C", "/repo", "worktree", "remove", "--force", wt], capture_output=True)
rc, o = run(["git", "-C", "/repo", "worktree", "add", "--detach", wt, "HEAD"])
try:
    rc, o = run(["git", "apply", patch], cwd=wt)
    meta["patch_applies"] = rc == 0
    if rc != 0:
        print("PATCH DOES NOT APPLY", o[:500]); raise SystemExit(1)
    rc, o = run(["go", "build", "./..."], cwd=wt)
    meta["compiles"] = rc == 0
    rc, o = run(["go", "test", "-vet=off", "-count=1", "./..."], cwd=wt)
    meta["repo_suite_passes_with_change"] = rc == 0
    meta["ran"].append("go test -vet=off -count=1 ./... (with the change): rc=%d" % rc)
    if os.path.exists(demo) and demo_pkg:
        dst = os.path.join(wt, demo_pkg, "zz_seed_demo_test.go")
        shutil.copy(demo, dst)
        import re as _re
        names = _re.findall(r"^func (Test\w+)\(", open(demo).read(), _re.M)
        rx = "^(" + "|".join(names) + ")$" if names else "."
        rc1, o1 = run(["go", "test", "-vet=off", "-count=1", "-run", rx, "./" + demo_pkg], cwd=wt, timeout=600)
        run(["git", "apply", "-R", patch], cwd=wt)
        rc2, o2 = run(["go", "test", "-vet=off", "-count=1", "-run", rx, "./" + demo_pkg], cwd=wt, timeout=600)
        meta["demo_fails_with_change"] = rc1 != 0
        meta["demo_passes_without_change"] = rc2 == 0
        meta["ran"].append("demo (go test ./%s) with the change: rc=%d; without: rc=%d" % (demo_pkg, rc1, rc2))
        meta["demo_output_with_change"] = o1[-1500:]
        if rc2 != 0:
            meta["demo_output_without_change"] = o2[-1500:]
finally:
    subprocess.run(["git", "-C", "/repo", "worktree", "remove", "--force", wt], capture_output=True)
    shutil.rmtree(wt, ignore_errors=True)
# checks against /repo itself
st = subprocess.run(["git", "-C", "/repo", "status", "--porcelain"], capture_output=True, text=True).stdout.strip()
if st:
    print("refusing: /repo is not clean:", st); raise SystemExit(2)
results = {}
try:
    rc, o = run(["git", "-C", "/repo", "apply", patch])
    assert rc == 0, o
    for p in [prop] + extra:
        t0 = time.time()
        rc, o = run(["/verif/check", p, "quick"], cwd="/verif", timeout=3600)
        viol = [l for l in o.splitlines() if l.startswith("VIOLATION")]
        classes = sorted(set(l.split("class=")[1].split()[0] for l in o.splitlines() if "class=" in l and ("scenario=" in l or l.strip().startswith("class="))))
        results[p] = {"exit": rc, "violation_lines": len(viol), "classes": classes[:12], "wall_s": round(time.time() - t0, 1)}
        meta["ran"].append("git -C /repo apply patch.diff; ./check %s quick -> exit %d, %d VIOLATION lines" % (p, rc, len(viol)))
finally:
    subprocess.run(["git", "-C", "/repo", "checkout", "--", "."], capture_output=True)
    subprocess.run(["git", "-C", "/repo", "clean", "-fdq"], capture_output=True)  # files the patch added
    # evidence and replay files written by a run against a mutated tree are not evidence
    subprocess.run(["git", "-C", "/verif", "checkout", "--", "evidence"], capture_output=True)
meta["checks"] = results
meta["detected_by"] = [p for p, r in results.items() if r["exit"] == 1]
d = os.path.join("/verif/seeded", name)
os.makedirs(d, exist_ok=True)
shutil.copy(patch, d)
for f in ("demo_test.go", "notes.md"):
    if os.path.exists(os.path.join(out, f)):
        shutil.copy(os.path.join(out, f), os.path.join(d, f + (".txt" if f.endswith(".go") else "")))
if demo_pkg:
    meta["demo_package_dir"] = demo_pkg
json.dump(meta, open(os.path.join(d, "meta.json"), "w"), indent=1)
print(json.dumps({k: meta[k] for k in meta if k not in ("demo_output_with_change",)}, indent=1)[:3000])
