#!/bin/bash
# tools/runsome.sh <tier> <props...>: as runall.sh, for the listed properties
cd "$(dirname "$0")/.."
tier=$1; shift
for p in "$@"; do
  t0=$(date +%s); out=$(./check $p $tier 2>&1); rc=$?; t1=$(date +%s)
  echo "$p rc=$rc $((t1-t0))s $(echo "$out" | grep -c '^VIOLATION') violations $(echo "$out" | grep -c '^KNOWN-FINDING') known | $(echo "$out" | tail -1 | cut -c1-160)"
done
