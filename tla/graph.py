#!/usr/bin/env python3
"""graph.py <dump.dot> <out.json> [max_paths]

Turns TLC's labelled state-graph dump (tlc -dump dot,actionlabels) of TunnelLink.tla into
  * a table of states (only the variables the conformance replayer compares or needs), and
  * an edge-covering set of paths from the initial state: every transition of the graph occurs in
    at least one path (paths are shortest-path prefixes extended greedily along uncovered edges).
The replayer (harness/conform) drives the real client along every path.
"""
import json, re, sys, collections

node_re = re.compile(r'^(-?\d+) \[label="(.*?)",(?:style|tooltip)')
edge_re = re.compile(r'^(-?\d+) -> (-?\d+) \[label="([^"]*)"')
KEEP = ("phase", "period", "last", "csnd", "gsnd", "gStopped", "c2g", "g2c", "bus", "sendOK", "sendFail",
        "accepted", "gwAcked", "parked", "cSeq", "cExp", "gExp", "gSeq")


def parse_value(s):
    """TLA+ value made of naturals and tuples."""
    pos = 0

    def val():
        nonlocal pos
        while s[pos] == " ":
            pos += 1
        if s.startswith("<<", pos):
            pos += 2
            out = []
            while True:
                while s[pos] == " ":
                    pos += 1
                if s.startswith(">>", pos):
                    pos += 2
                    return out
                out.append(val())
                while s[pos] == " ":
                    pos += 1
                if s[pos] == ",":
                    pos += 1
        m = re.match(r"\d+", s[pos:])
        if not m:
            raise ValueError("cannot parse %r at %d" % (s, pos))
        pos += len(m.group(0))
        return int(m.group(0))

    return val()


def parse_state(label):
    st = {}
    for part in label.split("\\n"):
        part = part.replace("/\\\\ ", "", 1).strip()
        if " = " not in part:
            continue
        k, v = part.split(" = ", 1)
        if k in KEEP:
            st[k] = parse_value(v)
    return st


def main():
    dot, out = sys.argv[1], sys.argv[2]
    ids = {}
    states = []
    edges = collections.defaultdict(list)
    init = None
    nedges = 0
    with open(dot, errors="replace") as f:
        for line in f:
            m = edge_re.match(line)
            if m:
                a, b = m.group(1), m.group(2)
                for x in (a, b):
                    if x not in ids:
                        ids[x] = len(states)
                        states.append(None)
                if ids[b] not in edges[ids[a]]:
                    edges[ids[a]].append(ids[b])
                    nedges += 1
                continue
            m = node_re.match(line)
            if m:
                x = m.group(1)
                if x not in ids:
                    ids[x] = len(states)
                    states.append(None)
                if states[ids[x]] is None:
                    states[ids[x]] = parse_state(m.group(2))
                if "style = filled" in line and init is None:
                    init = ids[x]
    if init is None or any(s is None for s in states):
        print("graph.py: incomplete dump (init=%r, unlabelled=%d)" % (init, sum(s is None for s in states)), file=sys.stderr)
        sys.exit(2)
    # self-loops carry no step for the replayer (stuttering of bounded states); drop them
    for a in list(edges):
        edges[a] = [b for b in edges[a] if b != a]
    # BFS tree
    parent = {init: None}
    depth = {init: 0}
    order = [init]
    q = collections.deque([init])
    while q:
        u = q.popleft()
        for v in edges.get(u, ()):
            if v not in parent:
                parent[v] = u
                depth[v] = depth[u] + 1
                order.append(v)
                q.append(v)
    def prefix(u):
        p = []
        while u is not None:
            p.append(u)
            u = parent[u]
        return p[::-1]
    uncovered = {u: list(vs) for u, vs in edges.items() if u in parent}
    total = sum(len(v) for v in uncovered.values())
    paths = []
    covered = 0
    for u in order:                      # by increasing depth
        while uncovered.get(u):
            path = prefix(u)
            cur = u
            while uncovered.get(cur):
                nxt = uncovered[cur].pop()
                covered += 1
                path.append(nxt)
                cur = nxt
            paths.append(path)
    maxp = int(sys.argv[3]) if len(sys.argv) > 3 else 0
    capped = False
    if maxp and len(paths) > maxp:
        paths, capped = paths[:maxp], True
    json.dump({"init": init, "states": states, "paths": paths, "n_states": len(states), "n_edges": total,
               "edges_covered": covered if not capped else None, "capped": capped,
               "max_depth": max(depth.values())}, open(out, "w"), separators=(",", ":"))
    print("graph.py: states=%d edges=%d paths=%d max_depth=%d longest_path=%d capped=%s" %
          (len(states), total, len(paths), max(depth.values()), max(len(p) for p in paths), capped))


if __name__ == "__main__":
    main()
