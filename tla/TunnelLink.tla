------------------------------ MODULE TunnelLink ------------------------------
(* Client (knx-go tunnel) x lossy/duplicating/reordering channels x rule-following gateway.   *)
(*                                                                                          *)
(* Time is a resend period R cut into four phases so that no two timed events coincide      *)
(* (the replayer realises them at offsets 0, R/4, R/2, 3R/4 of a period; the client runs    *)
(* with ResendInterval = R and ResponseTimeout = 2.5 R):                                    *)
(*   phase 0  client resend tick of a waiting Send; the application may start a Send        *)
(*   phase 1  acknowledgements parked in the previous period expire; the network delivers,  *)
(*            loses or duplicates frames (any number, any order)                            *)
(*   phase 2  a Send that began two periods ago times out                                   *)
(*   phase 3  the gateway's own stop-and-wait sender retransmits / gives up / sends         *)
(* Every variable is an integer or a sequence of integer tuples so that the state dump is   *)
(* trivial to parse; "last" records the step that led to a state and drives the replay.     *)
EXTENDS Naturals, Sequences, FiniteSets

CONSTANTS NOut, NIn, M, MaxFlight, MaxDup, MaxAge, MaxPeriods

VARIABLES phase, period,
          cSeq, cExp, gExp, gSeq,
          csnd,      \* <<>> idle, or <<pl, age>>
          nextOut, sentNow,
          parked,    \* sequence of acknowledgement sequence numbers on offer to the next Send
          gsnd, nextIn, gStopped,
          c2g, g2c,  \* sequences of frames <<kind, seq, pl, age>>; kind 1 request, 2 acknowledgement
          bus, sendOK, sendFail, accepted, gwAcked,
          nDup,
          last

vars == <<phase, period, cSeq, cExp, gExp, gSeq, csnd, nextOut, sentNow, parked, gsnd, nextIn,
          gStopped, c2g, g2c, bus, sendOK, sendFail, accepted, gwAcked, nDup, last>>

Inc(x) == (x + 1) % M
Dec(x) == (x + M - 1) % M

Remove(s, i) == [j \in 1..(Len(s) - 1) |-> IF j < i THEN s[j] ELSE s[j + 1]]
Member(s, x) == \E i \in 1..Len(s) : s[i] = x

Init ==
  /\ phase = 0 /\ period = 0
  /\ cSeq = 0 /\ cExp = 0 /\ gExp = 0 /\ gSeq = 0
  /\ csnd = <<>> /\ nextOut = 1 /\ sentNow = 0
  /\ parked = <<>>
  /\ gsnd = <<>> /\ nextIn = 1 /\ gStopped = 0
  /\ c2g = <<>> /\ g2c = <<>>
  /\ bus = <<>> /\ sendOK = <<>> /\ sendFail = <<>> /\ accepted = <<>> /\ gwAcked = <<>>
  /\ nDup = 0
  /\ last = <<0, 0>>

(* ---- phase 0 : the application starts a Send ---- *)
CSend ==
  /\ phase = 0 /\ csnd = <<>> /\ sentNow = 0 /\ nextOut <= NOut
  /\ Len(c2g) < MaxFlight
  /\ c2g' = Append(c2g, <<1, cSeq, nextOut, 0>>)
  /\ IF Member(parked, cSeq)
       THEN /\ sendOK' = Append(sendOK, nextOut)     \* a parked matching acknowledgement is consumed at once
            /\ cSeq' = Inc(cSeq)
            /\ csnd' = <<>>
       ELSE /\ csnd' = <<nextOut, 0>>
            /\ UNCHANGED <<sendOK, cSeq>>
  /\ parked' = <<>>
  /\ nextOut' = nextOut + 1
  /\ sentNow' = 1
  /\ last' = <<1, nextOut>>
  /\ UNCHANGED <<phase, period, cExp, gExp, gSeq, gsnd, nextIn, gStopped, g2c, bus, sendFail,
                 accepted, gwAcked, nDup>>

(* ---- phase 1 : the network ---- *)
GwReceive(f) ==            \* effect of frame f reaching the gateway
  IF f[1] = 1
    THEN /\ IF f[2] = gExp
              THEN /\ bus' = Append(bus, f[3])
                   /\ gExp' = Inc(gExp)
                   /\ g2c' = Append(g2c, <<2, f[2], 0, 0>>)
              ELSE IF f[2] = Dec(gExp)
                     THEN /\ g2c' = Append(g2c, <<2, f[2], 0, 0>>)
                          /\ UNCHANGED <<bus, gExp>>
                     ELSE UNCHANGED <<bus, gExp, g2c>>
         /\ UNCHANGED <<gsnd, gSeq, gwAcked>>
    ELSE /\ IF gsnd # <<>> /\ f[2] = gSeq
              THEN /\ gwAcked' = Append(gwAcked, gsnd[1])
                   /\ gSeq' = Inc(gSeq)
                   /\ gsnd' = <<>>
              ELSE UNCHANGED <<gsnd, gSeq, gwAcked>>
         /\ UNCHANGED <<bus, gExp, g2c>>

DeliverToGw(i) ==
  /\ phase = 1 /\ i \in 1..Len(c2g)
  /\ Len(g2c) < MaxFlight
  /\ GwReceive(c2g[i])
  /\ c2g' = Remove(c2g, i)
  /\ last' = <<2, i>>
  /\ UNCHANGED <<phase, period, cSeq, cExp, csnd, nextOut, sentNow, parked, nextIn, gStopped,
                 sendOK, sendFail, accepted, nDup>>

DeliverToClient(i) ==
  /\ phase = 1 /\ i \in 1..Len(g2c)
  /\ Len(c2g) < MaxFlight
  /\ LET f == g2c[i] IN
       IF f[1] = 2
         THEN /\ IF csnd # <<>>
                   THEN IF f[2] = cSeq
                          THEN /\ sendOK' = Append(sendOK, csnd[1])
                               /\ cSeq' = Inc(cSeq)
                               /\ csnd' = <<>>
                               /\ UNCHANGED parked
                          ELSE UNCHANGED <<sendOK, cSeq, csnd, parked>>
                   ELSE /\ parked' = Append(parked, f[2])
                        /\ UNCHANGED <<sendOK, cSeq, csnd>>
              /\ UNCHANGED <<accepted, cExp>>
              /\ c2g' = c2g
         ELSE /\ IF f[2] = cExp
                   THEN /\ accepted' = Append(accepted, f[3])
                        /\ cExp' = Inc(cExp)
                        /\ c2g' = Append(c2g, <<2, f[2], 0, 0>>)
                   ELSE IF f[2] = Dec(cExp)
                          THEN /\ c2g' = Append(c2g, <<2, f[2], 0, 0>>)
                               /\ UNCHANGED <<accepted, cExp>>
                          ELSE UNCHANGED <<accepted, cExp, c2g>>
              /\ UNCHANGED <<sendOK, cSeq, csnd, parked>>
  /\ g2c' = Remove(g2c, i)
  /\ last' = <<3, i>>
  /\ UNCHANGED <<phase, period, gExp, gSeq, nextOut, sentNow, gsnd, nextIn, gStopped, bus, sendFail,
                 gwAcked, nDup>>

LoseC2G(i) ==
  /\ phase = 1 /\ i \in 1..Len(c2g)
  /\ c2g' = Remove(c2g, i)
  /\ last' = <<4, i>>
  /\ UNCHANGED <<phase, period, cSeq, cExp, gExp, gSeq, csnd, nextOut, sentNow, parked, gsnd, nextIn,
                 gStopped, g2c, bus, sendOK, sendFail, accepted, gwAcked, nDup>>

LoseG2C(i) ==
  /\ phase = 1 /\ i \in 1..Len(g2c)
  /\ g2c' = Remove(g2c, i)
  /\ last' = <<5, i>>
  /\ UNCHANGED <<phase, period, cSeq, cExp, gExp, gSeq, csnd, nextOut, sentNow, parked, gsnd, nextIn,
                 gStopped, c2g, bus, sendOK, sendFail, accepted, gwAcked, nDup>>

DupC2G(i) ==
  /\ phase = 1 /\ i \in 1..Len(c2g) /\ nDup < MaxDup /\ Len(c2g) < MaxFlight
  /\ c2g' = Append(c2g, c2g[i])
  /\ nDup' = nDup + 1
  /\ last' = <<6, i>>
  /\ UNCHANGED <<phase, period, cSeq, cExp, gExp, gSeq, csnd, nextOut, sentNow, parked, gsnd, nextIn,
                 gStopped, g2c, bus, sendOK, sendFail, accepted, gwAcked>>

DupG2C(i) ==
  /\ phase = 1 /\ i \in 1..Len(g2c) /\ nDup < MaxDup /\ Len(g2c) < MaxFlight
  /\ g2c' = Append(g2c, g2c[i])
  /\ nDup' = nDup + 1
  /\ last' = <<7, i>>
  /\ UNCHANGED <<phase, period, cSeq, cExp, gExp, gSeq, csnd, nextOut, sentNow, parked, gsnd, nextIn,
                 gStopped, c2g, bus, sendOK, sendFail, accepted, gwAcked>>

(* ---- phase 3 : the gateway starts sending its next telegram ---- *)
GSend ==
  /\ phase = 3 /\ gsnd = <<>> /\ gStopped = 0 /\ nextIn <= NIn
  /\ Len(g2c) < MaxFlight
  /\ g2c' = Append(g2c, <<1, gSeq, 100 + nextIn, 0>>)
  /\ gsnd' = <<100 + nextIn, 0>>
  /\ nextIn' = nextIn + 1
  /\ last' = <<8, nextIn>>
  /\ UNCHANGED <<phase, period, cSeq, cExp, gExp, gSeq, csnd, nextOut, sentNow, parked, gStopped, c2g,
                 bus, sendOK, sendFail, accepted, gwAcked, nDup>>

(* ---- the clock ---- *)
Aged(s) == LET older == [j \in 1..Len(s) |-> <<s[j][1], s[j][2], s[j][3], s[j][4] + 1>>]
           IN SelectSeq(older, LAMBDA f : f[4] <= MaxAge)

Advance ==
  /\ last' = <<9, (phase + 1) % 4>>
  /\ CASE phase = 0 ->            \* to phase 1: acknowledgements parked a period ago expire
            /\ phase' = 1 /\ parked' = <<>>
            /\ UNCHANGED <<period, cSeq, cExp, gExp, gSeq, csnd, nextOut, sentNow, gsnd, nextIn, gStopped,
                           c2g, g2c, bus, sendOK, sendFail, accepted, gwAcked, nDup>>
       [] phase = 1 ->            \* to phase 2: response timeout of a Send begun two periods ago
            /\ phase' = 2
            /\ IF csnd # <<>> /\ csnd[2] = 2
                 THEN /\ sendFail' = Append(sendFail, csnd[1])
                      /\ csnd' = <<>>
                 ELSE UNCHANGED <<sendFail, csnd>>
            /\ UNCHANGED <<period, cSeq, cExp, gExp, gSeq, nextOut, sentNow, parked, gsnd, nextIn, gStopped,
                           c2g, g2c, bus, sendOK, accepted, gwAcked, nDup>>
       [] phase = 2 ->            \* to phase 3: the gateway's sender retransmits or gives up
            /\ phase' = 3
            /\ IF gsnd # <<>>
                 THEN IF gsnd[2] < 2
                        THEN /\ g2c' = Append(g2c, <<1, gSeq, gsnd[1], 0>>)
                             /\ gsnd' = <<gsnd[1], gsnd[2] + 1>>
                             /\ UNCHANGED gStopped
                        ELSE /\ gsnd' = <<>> /\ gStopped' = 1 /\ UNCHANGED g2c
                 ELSE UNCHANGED <<g2c, gsnd, gStopped>>
            /\ UNCHANGED <<period, cSeq, cExp, gExp, gSeq, csnd, nextOut, sentNow, parked, nextIn,
                           c2g, bus, sendOK, sendFail, accepted, gwAcked, nDup>>
       [] phase = 3 ->            \* to phase 0 of the next period: frames age, the client's resend tick
            /\ phase' = 0 /\ period' = period + 1 /\ sentNow' = 0
            /\ g2c' = Aged(g2c)
            /\ IF csnd # <<>>
                 THEN /\ c2g' = Append(Aged(c2g), <<1, cSeq, csnd[1], 0>>)
                      /\ csnd' = <<csnd[1], csnd[2] + 1>>
                 ELSE /\ c2g' = Aged(c2g) /\ UNCHANGED csnd
            /\ UNCHANGED <<cSeq, cExp, gExp, gSeq, nextOut, parked, gsnd, nextIn, gStopped,
                           bus, sendOK, sendFail, accepted, gwAcked, nDup>>

Next ==
  \/ CSend
  \/ \E i \in 1..MaxFlight : DeliverToGw(i) \/ DeliverToClient(i) \/ LoseC2G(i) \/ LoseG2C(i)
                              \/ DupC2G(i) \/ DupG2C(i)
  \/ GSend
  \/ Advance

Spec == Init /\ [][Next]_vars

(* ---- bounds (state constraints, not behaviour) ---- *)
Bounded == period <= MaxPeriods /\ Len(c2g) <= MaxFlight /\ Len(g2c) <= MaxFlight

(* ---- properties ---- *)
NoDup(s) == \A i, j \in 1..Len(s) : i # j => s[i] # s[j]
Pos(s, x) == CHOOSE i \in 1..Len(s) : s[i] = x
InOrderOnce(done, log) ==      \* every element of done occurs in log, and in the same relative order
  /\ \A i \in 1..Len(done) : Member(log, done[i])
  /\ \A i, j \in 1..Len(done) : i < j => Pos(log, done[i]) < Pos(log, done[j])

(* the statement's hazard: a Send timed out, yet the gateway accepted its request (before or   *)
(* after the timeout); from then on the client and the gateway disagree about the number      *)
Hazard == \E i \in 1..Len(sendFail) : Member(bus, sendFail[i])

ExactlyOnce == /\ NoDup(bus)
               /\ (Hazard \/ InOrderOnce(sendOK, bus))
               /\ NoDup(accepted)
               /\ InOrderOnce(gwAcked, accepted)

(* the statement's own hazard: reachable on purpose (expected to be violated) *)
NoLostSuccess == InOrderOnce(sendOK, bus)
=============================================================================
