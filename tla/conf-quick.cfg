\* state graph whose every transition is replayed against the client, quick tier
CONSTANTS NOut = 2  NIn = 1  M = 4  MaxFlight = 2  MaxDup = 0  MaxAge = 2  MaxPeriods = 3
INIT Init
NEXT Next
CONSTRAINT Bounded
INVARIANT ExactlyOnce
CHECK_DEADLOCK FALSE
