\* is the statement's hazard reachable? (expected: yes, invariant violated)
CONSTANTS NOut = 2  NIn = 1  M = 4  MaxFlight = 2  MaxDup = 0  MaxAge = 2  MaxPeriods = 3
INIT Init
NEXT Next
CONSTRAINT Bounded
INVARIANT NoLostSuccess
CHECK_DEADLOCK FALSE
