\* invariant check, quick tier
CONSTANTS NOut = 2  NIn = 1  M = 4  MaxFlight = 3  MaxDup = 1  MaxAge = 2  MaxPeriods = 4
INIT Init
NEXT Next
CONSTRAINT Bounded
INVARIANT ExactlyOnce
CHECK_DEADLOCK FALSE
