\* state graph whose every transition is replayed against the client, thorough tier
CONSTANTS NOut = 2  NIn = 1  M = 4  MaxFlight = 2  MaxDup = 1  MaxAge = 2  MaxPeriods = 3
INIT Init
NEXT Next
CONSTRAINT Bounded
INVARIANT ExactlyOnce
CHECK_DEADLOCK FALSE
