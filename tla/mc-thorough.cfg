\* invariant check, thorough tier
CONSTANTS NOut = 3  NIn = 1  M = 4  MaxFlight = 3  MaxDup = 1  MaxAge = 2  MaxPeriods = 5
INIT Init
NEXT Next
CONSTRAINT Bounded
INVARIANT ExactlyOnce
CHECK_DEADLOCK FALSE
