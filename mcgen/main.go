// mcgen rewrites the concurrent packages of knx-go so that every channel operation, go
// statement, select, sync and time call goes through the controlled runtime (DESIGN E2), and
// writes a `go build -overlay` file that maps the rewritten files over the repository's own and
// adds the runtime packages as virtual packages of the repository's module.
package main

import (
	"bytes"
	"encoding/json"
	"flag"
	"fmt"
	"go/ast"
	"go/parser"
	"go/printer"
	"go/token"
	"go/types"
	"os"
	"path/filepath"
	"regexp"
	"sort"
	"strconv"
	"strings"

	"golang.org/x/tools/go/ast/astutil"
	"golang.org/x/tools/go/packages"
)

const modPath = "github.com/vapourismo/knx-go"
const mcPath = modPath + "/verifmc/mc"

var importMap = map[string]string{
	"sync":                  modPath + "/verifmc/msync",
	"sync/atomic":           modPath + "/verifmc/matomic",
	"time":                  modPath + "/verifmc/mtime",
	"math/rand":             modPath + "/verifmc/mrand",
	"container/list":        modPath + "/verifmc/mlist",
	"net":                   modPath + "/verifmc/vnet",
	"golang.org/x/net/ipv4": modPath + "/verifmc/vipv4",
}

func die(f string, a ...interface{}) {
	fmt.Fprintf(os.Stderr, "INFRA-ERROR mcgen: "+f+"\n", a...)
	os.Exit(2)
}

func main() {
	repo := flag.String("repo", "/repo", "repository working tree")
	out := flag.String("out", "", "output directory")
	mcdir := flag.String("mc", "/verif/mc", "runtime package sources")
	hooks := flag.String("hooks", "/verif/hooks", "hook files: <dir>/<pkg with _ for />/*.go are added to the package")
	pkgsFlag := flag.String("pkgs", "knx,knx/knxnet", "packages (relative to the module root) to rewrite")
	optFlag := flag.String("optpkgs", "knx/cemi,knx/dpt,knx/util", "packages rewritten only when they contain concurrency constructs or package-level variables that functions modify")
	instrument := flag.Bool("race", true, "instrument struct-field accesses for the race detector")
	extraOverlay := flag.String("extra", "", "comma separated repoRelPath=file pairs overlaid verbatim (not rewritten)")
	flag.Parse()
	if *out == "" {
		die("need -out")
	}
	abs, err := filepath.Abs(*repo)
	if err != nil {
		die("%v", err)
	}
	*repo = abs
	overlay := map[string]string{}
	loadOverlay := map[string][]byte{}
	var pkgPaths []string
	for _, p := range strings.Split(*pkgsFlag, ",") {
		pkgPaths = append(pkgPaths, modPath+"/"+p)
		hd := filepath.Join(*hooks, strings.ReplaceAll(p, "/", "_"))
		ents, _ := os.ReadDir(hd)
		for _, e := range ents {
			if strings.HasSuffix(e.Name(), ".go") {
				b, err := os.ReadFile(filepath.Join(hd, e.Name()))
				if err != nil {
					die("%v", err)
				}
				loadOverlay[filepath.Join(*repo, p, "zz_verif_"+e.Name())] = b
			}
		}
	}
	optional := map[string]bool{}
	for _, p := range strings.Split(*optFlag, ",") {
		if p != "" {
			optional[modPath+"/"+p] = true
			pkgPaths = append(pkgPaths, modPath+"/"+p)
		}
	}
	// hook constructors of package knx: derived from the exported constructors of the tree under
	// check (so that a change to a constructor is seen through the injected-socket harnesses);
	// the hand-written copy under hooks/ is the fall-back when the derived file does not compile
	ctorPath := filepath.Join(*repo, "knx", "zz_verif_ctor.go")
	staticCtor := loadOverlay[ctorPath]
	if derived, err := deriveCtors(*repo); err == nil {
		loadOverlay[ctorPath] = derived
		os.WriteFile(filepath.Join(*out, "derived_ctor.go.txt"), derived, 0o644)
		fmt.Println("mcgen: hook constructors derived from knx.NewTunnel / NewGroupTunnel / NewRouter / NewGroupRouter")
	} else {
		fmt.Printf("mcgen: hook constructors NOT derived (%v): using the hand-written copy\n", err)
	}
	cfg := &packages.Config{
		Mode:    packages.NeedName | packages.NeedFiles | packages.NeedSyntax | packages.NeedTypes | packages.NeedTypesInfo | packages.NeedImports | packages.NeedDeps | packages.NeedCompiledGoFiles,
		Dir:     *repo,
		Overlay: loadOverlay,
		Env:     append(os.Environ(), "GOFLAGS=-mod=mod", "GOPROXY=off", "GOSUMDB=off", "GOTOOLCHAIN=local"),
	}
	pkgs, err := packages.Load(cfg, pkgPaths...)
	if err != nil {
		die("load: %v", err)
	}
	ctorBroken := false
	for _, p := range pkgs {
		for _, e := range p.Errors {
			if strings.Contains(e.Pos, "zz_verif_ctor.go") {
				ctorBroken = true
				fmt.Printf("mcgen: derived constructors: %v\n", e)
			}
		}
	}
	if ctorBroken && staticCtor != nil {
		fmt.Println("mcgen: the derived hook constructors do not type-check; falling back to the hand-written copy")
		loadOverlay[ctorPath] = staticCtor
		if pkgs, err = packages.Load(cfg, pkgPaths...); err != nil {
			die("load: %v", err)
		}
	}
	for _, p := range pkgs {
		for _, e := range p.Errors {
			die("package %s: %v", p.PkgPath, e)
		}
	}
	for _, p := range pkgs {
		rel := strings.TrimPrefix(p.PkgPath, modPath+"/")
		// every package (rewritten or not) gets a file that exposes the addresses of its package-level
		// variables: the harness restores them before every execution, so that executions are
		// independent of each other even when a change under check keeps state in package scope
		if gf := globalsFile(p); gf != nil {
			dst := filepath.Join(*out, "src", rel, "zz_verif_globals.go")
			os.MkdirAll(filepath.Dir(dst), 0o755)
			if err := os.WriteFile(dst, gf, 0o644); err != nil {
				die("%v", err)
			}
			overlay[filepath.Join(*repo, rel, "zz_verif_globals.go")] = dst
		}
		globals := mutatedGlobals(p)
		if optional[p.PkgPath] {
			why := needsRewrite(p, globals, "")
			if why == "" {
				fmt.Printf("mcgen: %s left as it is (no concurrency constructs, no package-level variable modified by a function)\n", rel)
				continue
			}
			fmt.Printf("mcgen: %s rewritten: %s\n", rel, why)
		}
		codecPoints := optional[p.PkgPath]
		if rel == "knx/knxnet" {
			// the frame codecs next to the socket layer: statement-level points only when they hold state
			if why := needsRewrite(p, globals, "socket.go"); why != "" {
				codecPoints = true
				fmt.Printf("mcgen: knx/knxnet codecs get statement-level scheduling points: %s\n", why)
			}
		}
		for i, f := range p.Syntax {
			name := p.CompiledGoFiles[i]
			if strings.HasSuffix(name, "_test.go") {
				continue
			}
			rw := &rewriter{pkg: p, file: f, fset: p.Fset, base: filepath.Base(name), instrument: *instrument, globals: globals, stmtPoints: codecPoints && !(rel == "knx/knxnet" && filepath.Base(name) == "socket.go") && fileHoldsState(p, f, globals), newType: map[ast.Node]types.Type{}, recvCalls: map[*ast.CallExpr]bool{}}
			src := rw.rewrite()
			dst := filepath.Join(*out, "src", rel, filepath.Base(name))
			if err := os.MkdirAll(filepath.Dir(dst), 0o755); err != nil {
				die("%v", err)
			}
			if err := os.WriteFile(dst, src, 0o644); err != nil {
				die("%v", err)
			}
			overlay[filepath.Join(*repo, rel, filepath.Base(name))] = dst
		}
	}
	// runtime packages as virtual packages of the repository module
	ents, err := os.ReadDir(*mcdir)
	if err != nil {
		die("%v", err)
	}
	for _, e := range ents {
		if !e.IsDir() {
			continue
		}
		files, _ := os.ReadDir(filepath.Join(*mcdir, e.Name()))
		for _, f := range files {
			if strings.HasSuffix(f.Name(), ".go") && !strings.HasSuffix(f.Name(), "_test.go") {
				overlay[filepath.Join(*repo, "verifmc", e.Name(), f.Name())] = filepath.Join(*mcdir, e.Name(), f.Name())
			}
		}
	}
	if *extraOverlay != "" {
		for _, kv := range strings.Split(*extraOverlay, ",") {
			i := strings.Index(kv, "=")
			if i < 0 {
				die("bad -extra %q", kv)
			}
			overlay[filepath.Join(*repo, kv[:i])] = kv[i+1:]
		}
	}
	b, _ := json.MarshalIndent(map[string]interface{}{"Replace": overlay}, "", " ")
	if err := os.WriteFile(filepath.Join(*out, "overlay.json"), b, 0o644); err != nil {
		die("%v", err)
	}
}

type rewriter struct {
	stmtPoints bool
	globals    map[*types.Var]bool
	pkg        *packages.Package
	file       *ast.File
	fset       *token.FileSet
	base       string
	instrument bool
	needMC     bool
	counter    int
	newType    map[ast.Node]types.Type
	recvCalls  map[*ast.CallExpr]bool
	funcStack  []string
}

func (r *rewriter) info() *types.Info { return r.pkg.TypesInfo }

func (r *rewriter) typeOf(e ast.Expr) types.Type {
	if t, ok := r.newType[e]; ok {
		return t
	}
	return r.info().TypeOf(e)
}

func (r *rewriter) isChan(e ast.Expr) bool {
	t := r.typeOf(e)
	if t == nil {
		return false
	}
	_, ok := t.Underlying().(*types.Chan)
	return ok
}

func mcSel(name string) ast.Expr {
	return &ast.SelectorExpr{X: ast.NewIdent("mc"), Sel: ast.NewIdent(name)}
}

func strLit(s string) ast.Expr {
	return &ast.BasicLit{Kind: token.STRING, Value: strconv.Quote(s)}
}

func (r *rewriter) tmp(prefix string) string {
	r.counter++
	return fmt.Sprintf("_mc_%s%d", prefix, r.counter)
}

// enclosing function names are tracked by position lookup
func (r *rewriter) enclosingFunc(pos token.Pos) string {
	name := "init"
	for _, d := range r.file.Decls {
		if fd, ok := d.(*ast.FuncDecl); ok && fd.Pos() <= pos && pos <= fd.End() {
			name = fd.Name.Name
		}
	}
	return name
}

func exprName(e ast.Expr) string {
	switch x := e.(type) {
	case *ast.Ident:
		return x.Name
	case *ast.SelectorExpr:
		return x.Sel.Name
	case *ast.FuncLit:
		return "func"
	case *ast.ParenExpr:
		return exprName(x.X)
	case *ast.StarExpr:
		return exprName(x.X)
	case *ast.CallExpr:
		return exprName(x.Fun)
	}
	return "expr"
}

func (r *rewriter) rewrite() []byte {
	if r.instrument {
		r.instrumentPass()
		r.globalsPass()
	}
	r.channelPass()
	if r.stmtPoints {
		r.stmtPass()
	}
	r.importPass()
	var buf bytes.Buffer
	r.file.Comments = nil
	r.file.Doc = nil
	buf.WriteString("//go:build go1.18\n\n")
	cfg := printer.Config{Mode: printer.UseSpaces | printer.TabIndent, Tabwidth: 8}
	if err := cfg.Fprint(&buf, r.fset, r.file); err != nil {
		die("print %s: %v", r.base, err)
	}
	return buf.Bytes()
}

// ---------------------------------------------------------------------------------------------
// pass 1: race instrumentation of field accesses on the package's own struct types

func (r *rewriter) ownStruct(t types.Type) bool {
	if p, ok := t.(*types.Pointer); ok {
		t = p.Elem()
	}
	n, ok := t.(*types.Named)
	if !ok || n.Obj().Pkg() == nil || n.Obj().Pkg().Path() != r.pkg.PkgPath {
		return false
	}
	_, ok = n.Underlying().(*types.Struct)
	if !ok {
		return false
	}
	// configuration structs are plain values copied around; instrument only the client types
	switch n.Obj().Name() {
	case "TunnelConfig", "RouterConfig", "GroupEvent":
		return false
	}
	return true
}

func isSyncType(t types.Type) bool {
	n, ok := t.(*types.Named)
	if !ok || n.Obj().Pkg() == nil {
		return false
	}
	return n.Obj().Pkg().Path() == "sync"
}

func (r *rewriter) instrumentPass() {
	info := r.info()
	astutil.Apply(r.file, nil, func(c *astutil.Cursor) bool {
		sel, ok := c.Node().(*ast.SelectorExpr)
		if !ok {
			return true
		}
		s := info.Selections[sel]
		if s == nil || s.Kind() != types.FieldVal || len(s.Index()) != 1 {
			return true
		}
		if !r.ownStruct(s.Recv()) {
			return true
		}
		ft := s.Obj().Type()
		if isSyncType(ft) {
			return true
		}
		// embedded pointer fields (GroupTunnel.Tunnel) are set once before publication
		if v, ok := s.Obj().(*types.Var); ok && v.Embedded() {
			return true
		}
		tv, ok := info.Types[sel]
		if !ok || !tv.Addressable() {
			return true
		}
		write := false
		switch p := c.Parent().(type) {
		case *ast.AssignStmt:
			if c.Name() == "Lhs" {
				if p.Tok == token.DEFINE {
					return true
				}
				write = true
			}
		case *ast.IncDecStmt:
			write = true
		case *ast.UnaryExpr:
			if p.Op == token.AND {
				return true
			}
		case *ast.KeyValueExpr:
			if c.Name() == "Key" {
				return true
			}
		}
		fn := "R"
		if write {
			fn = "W"
		}
		r.needMC = true
		site := fmt.Sprintf("%s:%s:%s.%s", r.base, r.enclosingFunc(sel.Pos()), exprName(sel.X), sel.Sel.Name)
		call := &ast.CallExpr{Fun: mcSel(fn), Args: []ast.Expr{&ast.UnaryExpr{Op: token.AND, X: sel}, strLit(site)}}
		var repl ast.Expr = &ast.StarExpr{X: call}
		if !write {
			repl = &ast.ParenExpr{X: repl}
		}
		r.newType[repl] = tv.Type
		c.Replace(repl)
		return true
	})
}

// ---------------------------------------------------------------------------------------------
// hook constructors derived from the tree

// deriveCtors builds New{Tunnel,GroupTunnel,Router,GroupRouter}OnSocket from the bodies of the
// exported constructors: the first parameter becomes the injected socket, the statements that dial
// or listen (and the error check that follows them) are dropped, calls of NewTunnel / NewRouter
// become calls of their OnSocket twins.
func deriveCtors(repo string) ([]byte, error) {
	fset := token.NewFileSet()
	want := map[string]string{"NewTunnel": "NewTunnelOnSocket", "NewGroupTunnel": "NewGroupTunnelOnSocket", "NewRouter": "NewRouterOnSocket", "NewGroupRouter": "NewGroupRouterOnSocket"}
	var decls []*ast.FuncDecl
	imports := map[string]string{} // name -> path
	for _, name := range []string{"tunnel.go", "router.go", "groups.go"} {
		f, err := parser.ParseFile(fset, filepath.Join(repo, "knx", name), nil, 0)
		if err != nil {
			return nil, err
		}
		for _, imp := range f.Imports {
			path, _ := strconv.Unquote(imp.Path.Value)
			n := path[strings.LastIndex(path, "/")+1:]
			if imp.Name != nil {
				n = imp.Name.Name
			}
			imports[n] = path
		}
		for _, d := range f.Decls {
			if fd, ok := d.(*ast.FuncDecl); ok && fd.Recv == nil && want[fd.Name.Name] != "" {
				decls = append(decls, fd)
			}
		}
	}
	if len(decls) != 4 {
		return nil, fmt.Errorf("found %d of the 4 exported constructors", len(decls))
	}
	isDial := func(n ast.Node) bool {
		found := false
		ast.Inspect(n, func(m ast.Node) bool {
			if c, ok := m.(*ast.CallExpr); ok {
				if sel, ok := c.Fun.(*ast.SelectorExpr); ok {
					if x, ok := sel.X.(*ast.Ident); ok && x.Name == "knxnet" && (strings.HasPrefix(sel.Sel.Name, "Dial") || strings.HasPrefix(sel.Sel.Name, "Listen")) {
						found = true
					}
				}
			}
			return !found
		})
		return found
	}
	declaresSock := func(st ast.Stmt) bool {
		ds, ok := st.(*ast.DeclStmt)
		if !ok {
			return false
		}
		gd, ok := ds.Decl.(*ast.GenDecl)
		if !ok {
			return false
		}
		for _, sp := range gd.Specs {
			if vs, ok := sp.(*ast.ValueSpec); ok && len(vs.Names) == 1 && vs.Names[0].Name == "sock" {
				return true
			}
		}
		return false
	}
	isErrCheck := func(st ast.Stmt) bool {
		is, ok := st.(*ast.IfStmt)
		if !ok || is.Init != nil || is.Else != nil {
			return false
		}
		be, ok := is.Cond.(*ast.BinaryExpr)
		if !ok || be.Op != token.NEQ {
			return false
		}
		x, ok := be.X.(*ast.Ident)
		if !ok || x.Name != "err" || len(is.Body.List) != 1 {
			return false
		}
		_, ok = is.Body.List[0].(*ast.ReturnStmt)
		return ok
	}
	var out bytes.Buffer
	var body bytes.Buffer
	for _, fd := range decls {
		ps := fd.Type.Params.List
		if len(ps) == 0 || len(ps[0].Names) != 1 {
			return nil, fmt.Errorf("%s: unexpected parameter list", fd.Name.Name)
		}
		addrName := ps[0].Names[0].Name
		ps[0] = &ast.Field{Names: []*ast.Ident{ast.NewIdent("sock")}, Type: &ast.SelectorExpr{X: ast.NewIdent("knxnet"), Sel: ast.NewIdent("Socket")}}
		fd.Name = ast.NewIdent(want[fd.Name.Name])
		fd.Doc = nil
		dialed := false
		var list []ast.Stmt
		// the address stays available to log lines and the like
		list = append(list, &ast.AssignStmt{Lhs: []ast.Expr{ast.NewIdent(addrName)}, Tok: token.DEFINE, Rhs: []ast.Expr{strLit("injected-socket")}},
			&ast.AssignStmt{Lhs: []ast.Expr{ast.NewIdent("_")}, Tok: token.ASSIGN, Rhs: []ast.Expr{ast.NewIdent(addrName)}})
		for i := 0; i < len(fd.Body.List); i++ {
			st := fd.Body.List[i]
			if declaresSock(st) {
				continue
			}
			if isDial(st) {
				dialed = true
				if i+1 < len(fd.Body.List) && isErrCheck(fd.Body.List[i+1]) {
					i++
				}
				continue
			}
			list = append(list, st)
		}
		fd.Body.List = list
		twin := false
		ast.Inspect(fd.Body, func(n ast.Node) bool {
			if c, ok := n.(*ast.CallExpr); ok {
				if id, ok := c.Fun.(*ast.Ident); ok && (id.Name == "NewTunnel" || id.Name == "NewRouter") && len(c.Args) > 0 {
					id.Name += "OnSocket"
					c.Args[0] = ast.NewIdent("sock")
					twin = true
				}
			}
			return true
		})
		if !dialed && !twin {
			return nil, fmt.Errorf("%s: neither a dial/listen statement nor a call of NewTunnel/NewRouter found", fd.Name.Name)
		}
		if err := printer.Fprint(&body, fset, fd); err != nil {
			return nil, err
		}
		body.WriteString("\n\n")
	}
	// the group layer's worker: whatever function NewGroupTunnel starts with `go f(source, sink)`
	worker := ""
	for _, fd := range decls {
		if fd.Name.Name != "NewGroupTunnelOnSocket" {
			continue
		}
		ast.Inspect(fd.Body, func(n ast.Node) bool {
			if gs, ok := n.(*ast.GoStmt); ok && len(gs.Call.Args) == 2 {
				if id, ok := gs.Call.Fun.(*ast.Ident); ok {
					worker = id.Name
				}
			}
			return true
		})
	}
	if worker == "" {
		return nil, fmt.Errorf("NewGroupTunnel does not start its worker with `go f(source, sink)`")
	}
	body.WriteString("// ServeGroupInboundForTest exposes the group layer on an arbitrary source channel.\nfunc ServeGroupInboundForTest(inbound <-chan cemi.Message, outbound chan<- GroupEvent) {\n\t" + worker + "(inbound, outbound)\n}\n")
	out.WriteString("// Code generated by /verif/mcgen from the exported constructors of package knx. DO NOT EDIT.\n\npackage knx\n\nimport (\n")
	src := body.String()
	imports["cemi"], imports["knxnet"] = modPath+"/knx/cemi", modPath+"/knx/knxnet"
	var names []string
	for n := range imports {
		names = append(names, n)
	}
	sort.Strings(names)
	for _, n := range names {
		if regexp.MustCompile(`(^|[^A-Za-z0-9_.])` + regexp.QuoteMeta(n) + `\.`).MatchString(src) {
			fmt.Fprintf(&out, "\t%s %q\n", n, imports[n])
		}
	}
	out.WriteString(")\n\n")
	out.WriteString(src)
	return out.Bytes(), nil
}

// ---------------------------------------------------------------------------------------------
// package-level variables that function bodies modify (hidden shared state)

func rootIdent(e ast.Expr) *ast.Ident {
	for {
		switch x := e.(type) {
		case *ast.Ident:
			return x
		case *ast.ParenExpr:
			e = x.X
		case *ast.IndexExpr:
			e = x.X
		case *ast.SliceExpr:
			e = x.X
		case *ast.SelectorExpr:
			e = x.X
		case *ast.StarExpr:
			e = x.X
		default:
			return nil
		}
	}
}

func isRuntimeType(t types.Type) bool {
	if p, ok := t.(*types.Pointer); ok {
		t = p.Elem()
	}
	n, ok := t.(*types.Named)
	if !ok || n.Obj().Pkg() == nil {
		return false
	}
	switch n.Obj().Pkg().Path() {
	case "sync", "sync/atomic":
		return true
	}
	return false
}

// writeRoots calls f for every identifier that is the root of an expression a function body
// modifies: assignment targets, ++/--, operands of &, sliced arrays, first arguments of copy and
// append, receivers of pointer methods called on an addressable value.
func writeRoots(info *types.Info, body ast.Node, f func(id *ast.Ident)) {
	root := func(e ast.Expr) {
		if id := rootIdent(e); id != nil {
			f(id)
		}
	}
	ast.Inspect(body, func(n ast.Node) bool {
		switch x := n.(type) {
		case *ast.AssignStmt:
			if x.Tok != token.DEFINE {
				for _, l := range x.Lhs {
					root(l)
				}
			}
		case *ast.IncDecStmt:
			root(x.X)
		case *ast.RangeStmt:
			if x.Tok == token.ASSIGN {
				if x.Key != nil {
					root(x.Key)
				}
				if x.Value != nil {
					root(x.Value)
				}
			}
		case *ast.UnaryExpr:
			if x.Op == token.AND {
				root(x.X)
			}
		case *ast.SliceExpr:
			if t := info.TypeOf(x.X); t != nil {
				if _, ok := t.Underlying().(*types.Array); ok {
					root(x.X)
				}
			}
		case *ast.CallExpr:
			if id, ok := x.Fun.(*ast.Ident); ok && (id.Name == "copy" || id.Name == "append") && len(x.Args) > 0 {
				if _, ok := info.Uses[id].(*types.Builtin); ok {
					root(x.Args[0])
				}
			}
			if sel, ok := x.Fun.(*ast.SelectorExpr); ok {
				if s := info.Selections[sel]; s != nil && s.Kind() == types.MethodVal {
					if sig, ok := s.Obj().Type().(*types.Signature); ok && sig.Recv() != nil {
						_, ptrRecv := sig.Recv().Type().(*types.Pointer)
						_, isPtr := s.Recv().(*types.Pointer)
						if ptrRecv && !isPtr && !isRuntimeType(s.Recv()) {
							root(sel.X)
						}
					}
				}
			}
		}
		return true
	})
}

func pkgLevelVar(info *types.Info, pkg *types.Package, id *ast.Ident) *types.Var {
	v, ok := info.Uses[id].(*types.Var)
	if !ok || v.IsField() || v.Pkg() != pkg || v.Parent() != pkg.Scope() {
		return nil
	}
	return v
}

func mutatedGlobals(p *packages.Package) map[*types.Var]bool {
	out := map[*types.Var]bool{}
	for i, f := range p.Syntax {
		if strings.HasSuffix(p.CompiledGoFiles[i], "_test.go") {
			continue
		}
		for _, d := range f.Decls {
			fd, ok := d.(*ast.FuncDecl)
			if !ok || fd.Body == nil {
				continue
			}
			writeRoots(p.TypesInfo, fd.Body, func(id *ast.Ident) {
				if v := pkgLevelVar(p.TypesInfo, p.Types, id); v != nil && !isRuntimeType(v.Type()) {
					out[v] = true
				}
			})
		}
	}
	return out
}

// globalsFile renders VerifGlobals() for a package: names and addresses of its package-level variables.
func globalsFile(p *packages.Package) []byte {
	var vars []string
	for i, f := range p.Syntax {
		if strings.HasSuffix(p.CompiledGoFiles[i], "_test.go") || strings.HasPrefix(filepath.Base(p.CompiledGoFiles[i]), "zz_verif_") {
			continue
		}
		for _, d := range f.Decls {
			gd, ok := d.(*ast.GenDecl)
			if !ok || gd.Tok != token.VAR {
				continue
			}
			for _, sp := range gd.Specs {
				for _, id := range sp.(*ast.ValueSpec).Names {
					if id.Name != "_" {
						vars = append(vars, id.Name)
					}
				}
			}
		}
	}
	sort.Strings(vars)
	var b bytes.Buffer
	fmt.Fprintf(&b, "// Code generated by /verif/mcgen. DO NOT EDIT.\n\npackage %s\n\n// VerifGlobals returns the names and addresses of all package-level variables.\nfunc VerifGlobals() ([]string, []interface{}) {\n\treturn []string{", p.Name)
	for _, v := range vars {
		fmt.Fprintf(&b, "%q, ", v)
	}
	b.WriteString("}, []interface{}{")
	for _, v := range vars {
		fmt.Fprintf(&b, "&%s, ", v)
	}
	b.WriteString("}\n}\n")
	return b.Bytes()
}

// fileHoldsState: the file imports a synchronisation package, uses goroutines or channels, or
// mentions a package-level variable that functions modify.
func fileHoldsState(p *packages.Package, f *ast.File, globals map[*types.Var]bool) bool {
	for _, imp := range f.Imports {
		switch path, _ := strconv.Unquote(imp.Path.Value); path {
		case "sync", "sync/atomic", "math/rand":
			return true
		}
	}
	found := false
	ast.Inspect(f, func(n ast.Node) bool {
		switch x := n.(type) {
		case *ast.GoStmt, *ast.SelectStmt, *ast.SendStmt, *ast.ChanType:
			found = true
		case *ast.Ident:
			if v, ok := p.TypesInfo.Uses[x].(*types.Var); ok && globals[v] {
				found = true
			}
		}
		return !found
	})
	return found
}

// needsRewrite says why an optional package has to run under the controlled runtime ("" = not).
func needsRewrite(p *packages.Package, globals map[*types.Var]bool, except string) string {
	var why []string
	for i, f := range p.Syntax {
		if strings.HasSuffix(p.CompiledGoFiles[i], "_test.go") || filepath.Base(p.CompiledGoFiles[i]) == except {
			continue
		}
		base := filepath.Base(p.CompiledGoFiles[i])
		for _, imp := range f.Imports {
			switch path, _ := strconv.Unquote(imp.Path.Value); path {
			case "sync", "sync/atomic", "math/rand":
				why = append(why, base+" imports "+path)
			}
		}
		ast.Inspect(f, func(n ast.Node) bool {
			switch n.(type) {
			case *ast.GoStmt, *ast.SelectStmt, *ast.SendStmt, *ast.ChanType:
				why = append(why, base+" uses goroutines or channels")
				return false
			}
			return true
		})
	}
	var names []string
	for v := range globals {
		names = append(names, v.Name())
	}
	sort.Strings(names)
	if len(names) > 0 {
		why = append(why, "functions modify the package-level variable(s) "+strings.Join(names, ", "))
	}
	if len(why) > 4 {
		why = append(why[:4], "...")
	}
	return strings.Join(why, "; ")
}

// globalsPass instruments every use of a modified package-level variable inside function bodies.
func (r *rewriter) globalsPass() {
	if len(r.globals) == 0 {
		return
	}
	info := r.info()
	for _, d := range r.file.Decls {
		fd, ok := d.(*ast.FuncDecl)
		if !ok || fd.Body == nil {
			continue
		}
		writes := map[*ast.Ident]bool{}
		writeRoots(info, fd.Body, func(id *ast.Ident) { writes[id] = true })
		astutil.Apply(fd.Body, nil, func(c *astutil.Cursor) bool {
			id, ok := c.Node().(*ast.Ident)
			if !ok {
				return true
			}
			v := pkgLevelVar(info, r.pkg.Types, id)
			if v == nil || !r.globals[v] {
				return true
			}
			if sel, ok := c.Parent().(*ast.SelectorExpr); ok && sel.Sel == id {
				return true
			}
			fn := "R"
			if writes[id] {
				fn = "W"
			}
			r.needMC = true
			site := fmt.Sprintf("%s:%s:%s", r.base, fd.Name.Name, id.Name)
			call := &ast.CallExpr{Fun: mcSel(fn), Args: []ast.Expr{&ast.UnaryExpr{Op: token.AND, X: ast.NewIdent(id.Name)}, strLit(site)}}
			repl := &ast.ParenExpr{X: &ast.StarExpr{X: call}}
			r.newType[repl] = v.Type()
			c.Replace(repl)
			return true
		})
	}
}

// ---------------------------------------------------------------------------------------------
// pass 2: channels, select, go, range, make, close

func (r *rewriter) chanTypeExpr(elem ast.Expr) ast.Expr {
	r.needMC = true
	return &ast.StarExpr{X: &ast.IndexExpr{X: mcSel("Chan"), Index: elem}}
}

// chanElem rewrites the channel types nested in an element type (chan chan T, chan []chan T, ...):
// a node that replaces another one is not walked by astutil.Apply, so the element type of a
// make(chan ...) that has just been replaced must be converted here.
func (r *rewriter) chanElem(e ast.Expr) ast.Expr {
	return astutil.Apply(e, nil, func(c *astutil.Cursor) bool {
		if ct, ok := c.Node().(*ast.ChanType); ok {
			c.Replace(r.chanTypeExpr(ct.Value))
		}
		return true
	}).(ast.Expr)
}

func (r *rewriter) isBuiltin(id *ast.Ident, name string) bool {
	if id.Name != name {
		return false
	}
	_, ok := r.info().Uses[id].(*types.Builtin)
	return ok
}

func unparen(e ast.Expr) ast.Expr {
	for {
		p, ok := e.(*ast.ParenExpr)
		if !ok {
			return e
		}
		e = p.X
	}
}

func (r *rewriter) recvOperand(e ast.Expr) (ast.Expr, bool) {
	u, ok := unparen(e).(*ast.UnaryExpr)
	if !ok || u.Op != token.ARROW {
		return nil, false
	}
	return u.X, true
}

func (r *rewriter) makeName(c *astutil.Cursor) string {
	switch p := c.Parent().(type) {
	case *ast.KeyValueExpr:
		return exprName(p.Key)
	case *ast.AssignStmt:
		if c.Index() >= 0 && c.Index() < len(p.Lhs) {
			return exprName(p.Lhs[c.Index()])
		}
	case *ast.ValueSpec:
		if c.Index() >= 0 && c.Index() < len(p.Names) {
			return p.Names[c.Index()].Name
		}
	}
	return "chan"
}

func (r *rewriter) channelPass() {
	pre := func(c *astutil.Cursor) bool {
		switch n := c.Node().(type) {
		case *ast.CallExpr:
			if id, ok := n.Fun.(*ast.Ident); ok && r.isBuiltin(id, "make") && len(n.Args) >= 1 {
				if ct, ok := n.Args[0].(*ast.ChanType); ok {
					var size ast.Expr = &ast.BasicLit{Kind: token.INT, Value: "0"}
					if len(n.Args) > 1 {
						size = n.Args[1]
					}
					r.needMC = true
					name := r.enclosingFunc(n.Pos()) + "." + r.makeName(c)
					c.Replace(&ast.CallExpr{
						Fun:  &ast.IndexExpr{X: mcSel("NewChan"), Index: r.chanElem(ct.Value)},
						Args: []ast.Expr{size, strLit(name)},
					})
				}
			}
		case *ast.SelectStmt:
			c.Replace(r.rewriteSelect(n))
		case *ast.RangeStmt:
			if r.isChan(n.X) {
				c.Replace(r.rewriteRange(n))
			}
		case *ast.GoStmt:
			c.Replace(r.rewriteGo(n))
		}
		return true
	}
	post := func(c *astutil.Cursor) bool {
		switch n := c.Node().(type) {
		case *ast.ChanType:
			c.Replace(r.chanTypeExpr(n.Value))
		case *ast.SendStmt:
			c.Replace(&ast.ExprStmt{X: &ast.CallExpr{Fun: &ast.SelectorExpr{X: n.Chan, Sel: ast.NewIdent("Send")}, Args: []ast.Expr{n.Value}}})
		case *ast.UnaryExpr:
			if n.Op == token.ARROW {
				call := &ast.CallExpr{Fun: &ast.SelectorExpr{X: n.X, Sel: ast.NewIdent("Recv")}}
				r.recvCalls[call] = true
				c.Replace(call)
			}
		case *ast.AssignStmt:
			if len(n.Lhs) == 2 && len(n.Rhs) == 1 {
				if call, ok := unparen(n.Rhs[0]).(*ast.CallExpr); ok && r.recvCalls[call] {
					call.Fun.(*ast.SelectorExpr).Sel = ast.NewIdent("Recv2")
				}
			}
		case *ast.ValueSpec:
			if len(n.Names) == 2 && len(n.Values) == 1 {
				if call, ok := unparen(n.Values[0]).(*ast.CallExpr); ok && r.recvCalls[call] {
					call.Fun.(*ast.SelectorExpr).Sel = ast.NewIdent("Recv2")
				}
			}
		case *ast.CallExpr:
			if id, ok := n.Fun.(*ast.Ident); ok && r.isBuiltin(id, "close") && len(n.Args) == 1 {
				c.Replace(&ast.CallExpr{Fun: &ast.SelectorExpr{X: n.Args[0], Sel: ast.NewIdent("Close")}})
			} else if id, ok := n.Fun.(*ast.Ident); ok && (r.isBuiltin(id, "len") || r.isBuiltin(id, "cap")) && len(n.Args) == 1 && r.isChan(n.Args[0]) {
				die("%s: len/cap of a channel is not supported", r.fset.Position(n.Pos()))
			} else if se, ok := n.Fun.(*ast.SelectorExpr); ok && se.Sel.Name == "AfterFunc" {
				if id, ok := se.X.(*ast.Ident); ok {
					if pn, ok := r.info().Uses[id].(*types.PkgName); ok && pn.Imported().Path() == "time" && len(n.Args) == 2 {
						site := r.base + ":" + r.enclosingFunc(n.Pos()) + ":" + exprName(n.Args[1])
						se.Sel = ast.NewIdent("AfterFuncAt")
						n.Args = append([]ast.Expr{strLit(site)}, n.Args...)
					}
				}
			}
		}
		return true
	}
	astutil.Apply(r.file, pre, post)
	// Safety net: nothing native may be left. (Channel operations would fail to type-check, but a
	// leftover go or select statement would compile and run outside the controlled scheduler.)
	ast.Inspect(r.file, func(n ast.Node) bool {
		switch n.(type) {
		case *ast.GoStmt, *ast.SelectStmt, *ast.SendStmt, *ast.ChanType:
			die("%s: %T survived the rewrite", r.fset.Position(n.Pos()), n)
		}
		return true
	})
}

func (r *rewriter) rewriteSelect(s *ast.SelectStmt) ast.Stmt {
	r.needMC = true
	var names []ast.Expr
	var ctors []ast.Expr
	var clauses []ast.Stmt
	hasDefault := false
	idx := 0
	for _, st := range s.Body.List {
		cc := st.(*ast.CommClause)
		if cc.Comm == nil {
			hasDefault = true
			clauses = append(clauses, &ast.CaseClause{List: nil, Body: cc.Body})
			continue
		}
		name := r.tmp("c")
		var prefix []ast.Stmt
		switch comm := cc.Comm.(type) {
		case *ast.SendStmt:
			ctors = append(ctors, &ast.CallExpr{Fun: mcSel("SendC"), Args: []ast.Expr{comm.Chan, comm.Value}})
		case *ast.ExprStmt:
			ch, ok := r.recvOperand(comm.X)
			if !ok {
				die("%s: unsupported select case", r.fset.Position(comm.Pos()))
			}
			ctors = append(ctors, &ast.CallExpr{Fun: mcSel("RecvC"), Args: []ast.Expr{ch}})
		case *ast.AssignStmt:
			ch, ok := r.recvOperand(comm.Rhs[0])
			if !ok {
				die("%s: unsupported select case", r.fset.Position(comm.Pos()))
			}
			ctors = append(ctors, &ast.CallExpr{Fun: mcSel("RecvC"), Args: []ast.Expr{ch}})
			rhs := []ast.Expr{&ast.SelectorExpr{X: ast.NewIdent(name), Sel: ast.NewIdent("V")}}
			if len(comm.Lhs) == 2 {
				rhs = append(rhs, &ast.SelectorExpr{X: ast.NewIdent(name), Sel: ast.NewIdent("Ok")})
			}
			prefix = append(prefix, &ast.AssignStmt{Lhs: comm.Lhs, Tok: comm.Tok, Rhs: rhs})
			// silence "declared and not used" for blank-free but unused definitions is not needed:
			// the original would not compile either.
		default:
			die("%s: unsupported select case", r.fset.Position(cc.Pos()))
		}
		names = append(names, ast.NewIdent(name))
		// The clause body must stay the *same slice* as the original's: Apply goes on to walk the
		// original node's children and replaces statements in that slice (a copy would silently
		// keep e.g. a native go statement).
		body := cc.Body
		if len(prefix) > 0 {
			body = append(prefix, &ast.BlockStmt{List: cc.Body})
		}
		clauses = append(clauses, &ast.CaseClause{
			List: []ast.Expr{&ast.BasicLit{Kind: token.INT, Value: strconv.Itoa(idx)}},
			Body: body,
		})
		idx++
	}
	def := "false"
	if hasDefault {
		def = "true"
	}
	args := append([]ast.Expr{ast.NewIdent(def)}, names...)
	sw := &ast.SwitchStmt{
		Tag:  &ast.CallExpr{Fun: mcSel("Select"), Args: args},
		Body: &ast.BlockStmt{List: clauses},
	}
	if len(names) > 0 {
		sw.Init = &ast.AssignStmt{Lhs: names, Tok: token.DEFINE, Rhs: ctors}
	}
	return sw
}

func (r *rewriter) rewriteRange(rs *ast.RangeStmt) ast.Stmt {
	chv := r.tmp("r")
	okv := r.tmp("ok")
	recv := &ast.CallExpr{Fun: &ast.SelectorExpr{X: ast.NewIdent(chv), Sel: ast.NewIdent("Recv2")}}
	var head []ast.Stmt
	switch {
	case rs.Key == nil:
		head = append(head, &ast.AssignStmt{Lhs: []ast.Expr{ast.NewIdent("_"), ast.NewIdent(okv)}, Tok: token.DEFINE, Rhs: []ast.Expr{recv}})
	case rs.Tok == token.DEFINE:
		head = append(head, &ast.AssignStmt{Lhs: []ast.Expr{rs.Key, ast.NewIdent(okv)}, Tok: token.DEFINE, Rhs: []ast.Expr{recv}})
	default:
		tv := r.tmp("v")
		head = append(head,
			&ast.AssignStmt{Lhs: []ast.Expr{ast.NewIdent(tv), ast.NewIdent(okv)}, Tok: token.DEFINE, Rhs: []ast.Expr{recv}})
		defer func() {}()
		head = append(head, &ast.IfStmt{
			Cond: &ast.UnaryExpr{Op: token.NOT, X: ast.NewIdent(okv)},
			Body: &ast.BlockStmt{List: []ast.Stmt{&ast.BranchStmt{Tok: token.BREAK}}},
		})
		head = append(head, &ast.AssignStmt{Lhs: []ast.Expr{rs.Key}, Tok: token.ASSIGN, Rhs: []ast.Expr{ast.NewIdent(tv)}})
		return &ast.ForStmt{
			Init: &ast.AssignStmt{Lhs: []ast.Expr{ast.NewIdent(chv)}, Tok: token.DEFINE, Rhs: []ast.Expr{rs.X}},
			Body: &ast.BlockStmt{List: append(head, rs.Body)}, // shared, see rewriteSelect
		}
	}
	head = append(head, &ast.IfStmt{
		Cond: &ast.UnaryExpr{Op: token.NOT, X: ast.NewIdent(okv)},
		Body: &ast.BlockStmt{List: []ast.Stmt{&ast.BranchStmt{Tok: token.BREAK}}},
	})
	return &ast.ForStmt{
		Init: &ast.AssignStmt{Lhs: []ast.Expr{ast.NewIdent(chv)}, Tok: token.DEFINE, Rhs: []ast.Expr{rs.X}},
		Body: &ast.BlockStmt{List: append(head, rs.Body)}, // shared, see rewriteSelect
	}
}

func (r *rewriter) rewriteGo(g *ast.GoStmt) ast.Stmt {
	r.needMC = true
	site := fmt.Sprintf("%s:%s:%s", r.base, r.enclosingFunc(g.Pos()), exprName(g.Call.Fun))
	if fl, ok := g.Call.Fun.(*ast.FuncLit); ok && len(g.Call.Args) == 0 {
		return &ast.ExprStmt{X: &ast.CallExpr{Fun: mcSel("Go"), Args: []ast.Expr{strLit(site), fl}}}
	}
	var stmts []ast.Stmt
	args := make([]ast.Expr, len(g.Call.Args))
	for i, a := range g.Call.Args {
		tv, ok := r.info().Types[a]
		if id, isId := a.(*ast.Ident); (isId && id.Name == "nil") || (ok && tv.Value != nil) || (ok && tv.IsNil()) {
			args[i] = a
			continue
		}
		if _, isLit := a.(*ast.FuncLit); isLit {
			args[i] = a
			continue
		}
		name := r.tmp("a")
		stmts = append(stmts, &ast.AssignStmt{Lhs: []ast.Expr{ast.NewIdent(name)}, Tok: token.DEFINE, Rhs: []ast.Expr{a}})
		args[i] = ast.NewIdent(name)
	}
	call := &ast.CallExpr{Fun: g.Call.Fun, Args: args, Ellipsis: g.Call.Ellipsis}
	fl := &ast.FuncLit{Type: &ast.FuncType{Params: &ast.FieldList{}}, Body: &ast.BlockStmt{List: []ast.Stmt{&ast.ExprStmt{X: call}}}}
	stmts = append(stmts, &ast.ExprStmt{X: &ast.CallExpr{Fun: mcSel("Go"), Args: []ast.Expr{strLit(site), fl}}})
	if len(stmts) == 1 {
		return stmts[0]
	}
	return &ast.BlockStmt{List: stmts}
}

// ---------------------------------------------------------------------------------------------
// pass 2b: statement-level scheduling points (codec packages only; inactive unless a scenario
// switches them on)

func (r *rewriter) stmtPass() {
	point := func() ast.Stmt {
		return &ast.ExprStmt{X: &ast.CallExpr{Fun: mcSel("StmtPoint")}}
	}
	weave := func(list []ast.Stmt) []ast.Stmt {
		if len(list) == 0 {
			return list
		}
		out := make([]ast.Stmt, 0, 2*len(list))
		for _, st := range list {
			out = append(out, point(), st)
		}
		return out
	}
	for _, d := range r.file.Decls {
		fd, ok := d.(*ast.FuncDecl)
		if !ok || fd.Body == nil {
			continue
		}
		skip := map[*ast.BlockStmt]bool{}
		ast.Inspect(fd.Body, func(n ast.Node) bool {
			switch x := n.(type) {
			case *ast.SwitchStmt:
				skip[x.Body] = true
			case *ast.TypeSwitchStmt:
				skip[x.Body] = true
			case *ast.SelectStmt:
				skip[x.Body] = true
			case *ast.BlockStmt:
				if skip[x] {
					return true
				}
				x.List = weave(x.List)
				r.needMC = r.needMC || len(x.List) > 0
			case *ast.CaseClause:
				x.Body = weave(x.Body)
				r.needMC = r.needMC || len(x.Body) > 0
			case *ast.CommClause:
				x.Body = weave(x.Body)
				r.needMC = r.needMC || len(x.Body) > 0
			}
			return true
		})
	}
}

// ---------------------------------------------------------------------------------------------
// pass 3: imports

func (r *rewriter) importPass() {
	for _, imp := range r.file.Imports {
		p, _ := strconv.Unquote(imp.Path.Value)
		if np, ok := importMap[p]; ok {
			if imp.Name == nil {
				base := p[strings.LastIndex(p, "/")+1:]
				imp.Name = ast.NewIdent(base)
			}
			imp.Path.Value = strconv.Quote(np)
			imp.EndPos = 0
		}
	}
	if r.needMC {
		astutil.AddNamedImport(r.fset, r.file, "mc", mcPath)
	}
	// unused imports can appear when the only use was rewritten away: drop them
	used := map[string]bool{}
	ast.Inspect(r.file, func(n ast.Node) bool {
		if se, ok := n.(*ast.SelectorExpr); ok {
			if id, ok := se.X.(*ast.Ident); ok {
				used[id.Name] = true
			}
		}
		return true
	})
	var names []string
	for _, imp := range r.file.Imports {
		if imp.Name != nil && imp.Name.Name != "_" && !used[imp.Name.Name] {
			names = append(names, imp.Name.Name)
		}
	}
	sort.Strings(names)
	for _, n := range names {
		for _, imp := range r.file.Imports {
			if imp.Name != nil && imp.Name.Name == n {
				p, _ := strconv.Unquote(imp.Path.Value)
				astutil.DeleteNamedImport(r.fset, r.file, n, p)
			}
		}
	}
}
