// Package common holds what the model-checking and the enumeration drivers share: the
// known-findings file, evidence writing, verdict lines.
package common

import (
	"encoding/json"
	"fmt"
	"os"
	"path/filepath"
	"regexp"
	"time"
)

// KnownFinding is one entry of /verif/known_findings.json.
type KnownFinding struct {
	Property string `json:"property"`
	ID       string `json:"id"`
	Status   string `json:"status"` // "open" | "fixed"
	Commit   string `json:"commit,omitempty"`
	Class    string `json:"class"` // regular expression on the violation class (anchored)
	What     string `json:"what"`
}

// LoadKnown reads the committed known-findings file (never written at run time).
func LoadKnown(verifDir string) []KnownFinding {
	b, err := os.ReadFile(filepath.Join(verifDir, "known_findings.json"))
	if err != nil {
		return nil
	}
	var f struct {
		Findings []KnownFinding `json:"findings"`
	}
	if err := json.Unmarshal(b, &f); err != nil {
		fmt.Println("INFRA-ERROR cannot parse known_findings.json:", err)
		os.Exit(2)
	}
	return f.Findings
}

// MatchKnown returns the open finding of prop whose class pattern matches class.
func MatchKnown(known []KnownFinding, prop, class string) *KnownFinding {
	for i := range known {
		k := &known[i]
		if k.Property != prop || k.Status != "open" {
			continue
		}
		if ok, _ := regexp.MatchString("^(?:"+k.Class+")$", class); ok {
			return k
		}
	}
	return nil
}

var unsafeChars = regexp.MustCompile(`[^A-Za-z0-9_.-]+`)

// Sanitize makes s usable as a file name.
func Sanitize(s string) string {
	s = unsafeChars.ReplaceAllString(s, "_")
	if len(s) > 100 {
		s = s[:100]
	}
	return s
}

// OutDir is where evidence and replay files go: the verif directory, unless VERIF_OUT names another
// one (runs against scratch copies of the repository - seeded changes, mutants - must not replace
// the evidence that describes /repo).
func OutDir(verifDir string) string {
	if d := os.Getenv("VERIF_OUT"); d != "" {
		return d
	}
	return verifDir
}

// WriteEvidence writes /verif/evidence/<prop>.json.
func WriteEvidence(verifDir, prop, tier string, seed int64, level string, coverage map[string]interface{}, assumptions []string, t0 time.Time, violations int) error {
	verifDir = OutDir(verifDir)
	os.MkdirAll(filepath.Join(verifDir, "evidence"), 0o755)
	ev := map[string]interface{}{
		"property_id": prop,
		"tier":        tier,
		"seed":        seed,
		"level":       level,
		"coverage":    coverage,
		"assumptions": assumptions,
		"wall_s":      time.Since(t0).Seconds(),
		"violations":  violations,
	}
	b, err := json.MarshalIndent(ev, "", " ")
	if err != nil {
		return err
	}
	return os.WriteFile(filepath.Join(verifDir, "evidence", prop+".json"), b, 0o644)
}

// WriteReplay stores a violation artefact and returns its path.
func WriteReplay(verifDir, prop, name string, v interface{}) string {
	dir := filepath.Join(OutDir(verifDir), "replays")
	os.MkdirAll(dir, 0o755)
	path := filepath.Join(dir, Sanitize(prop+"-"+name)+".json")
	b, _ := json.MarshalIndent(v, "", " ")
	os.WriteFile(path, b, 0o644)
	return path
}
